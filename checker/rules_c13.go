package main

import (
	"fmt"
	"go/ast"
	"go/constant"
	"go/token"
	"go/types"
	"strings"

	"golang.org/x/tools/go/packages"
	"golang.org/x/tools/go/ssa"
)

func init() {
	register("C13",
		"Resolution over id populations is a value statement; decided are the structural facts it rests on: (R13.1) CombineIds and SeparateIds use the same interleaving pattern — the position predicate of each is folded, as a closed integer expression in the loop index, for every position 0..63 and the two 64-bit masks compared (also against the pattern string documented above CombineIds), the 'case' arm handles the secondary id and the default arm the primary one in both, positions are visited in ascending order; (R13.2) the matcher resolution returns a multiple-match error carrying exactly the matches for more than one match, not-found for none, the single match otherwise, and collects a match exactly when the predicate accepts the excerpt; comment resolution filters bugs by the primary part of the separated prefix and comments by the full prefix, with the same 0/1/many outcome; (R13.3) prefix tests are strings.HasPrefix on the raw id with the user's prefix as second argument.",
		[]string{"ids are ASCII (byte index = position)", "behaviour over concrete id populations is not computed"},
		runC13)
}

// evalPkg: the package whose pure one-line helpers evalExpr may unfold (set by analyseInterleave).
var evalPkg *packages.Package
var evalDepth int

// evalIntExpr evaluates an integer/boolean expression over one variable (by object identity).
// evalLocals: single-assignment locals of the function under analysis (see analyseInterleave)
var evalLocals = map[types.Object]ast.Expr{}

func evalExpr(info *types.Info, e ast.Expr, v types.Object, val int64) (int64, bool, bool) { // (int value, bool value, ok)
	switch x := e.(type) {
	case *ast.ParenExpr:
		return evalExpr(info, x.X, v, val)
	case *ast.BasicLit:
		if tv, ok := info.Types[x]; ok && tv.Value != nil {
			if n, ok := constant.Int64Val(tv.Value); ok {
				return n, false, true
			}
		}
	case *ast.Ident:
		if obj := info.Uses[x]; obj != nil {
			if obj == v {
				return val, false, true
			}
			if rhs, isLocal := evalLocals[obj]; isLocal {
				evalDepth++
				defer func() { evalDepth-- }()
				if evalDepth > 3 {
					return 0, false, false
				}
				return evalExpr(info, rhs, v, val)
			}
			if c, ok := obj.(*types.Const); ok {
				if n, ok := constant.Int64Val(c.Val()); ok {
					return n, false, true
				}
				if c.Val().Kind() == constant.Bool {
					return 0, constant.BoolVal(c.Val()), true
				}
			}
		}
	case *ast.CallExpr:
		// a pure predicate/function of the same package: func f(i int) T { return <expr in i> }
		if evalPkg == nil || len(x.Args) != 1 {
			return 0, false, false
		}
		id, isId := x.Fun.(*ast.Ident)
		if !isId {
			return 0, false, false
		}
		fobj, isFn := info.Uses[id].(*types.Func)
		if !isFn {
			return 0, false, false
		}
		arg, _, okArg := evalExpr(info, x.Args[0], v, val)
		if !okArg {
			return 0, false, false
		}
		for _, file := range evalPkg.Syntax {
			for _, d := range file.Decls {
				fd, isFD := d.(*ast.FuncDecl)
				if !isFD || fd.Body == nil || info.Defs[fd.Name] != types.Object(fobj) {
					continue
				}
				if len(fd.Body.List) != 1 || fd.Type.Params == nil || len(fd.Type.Params.List) != 1 || len(fd.Type.Params.List[0].Names) != 1 {
					return 0, false, false
				}
				ret, isRet := fd.Body.List[0].(*ast.ReturnStmt)
				if !isRet || len(ret.Results) != 1 {
					return 0, false, false
				}
				pobj := info.Defs[fd.Type.Params.List[0].Names[0]]
				evalDepth++
				defer func() { evalDepth-- }()
				if evalDepth > 3 {
					return 0, false, false
				}
				return evalExpr(info, ret.Results[0], pobj, arg)
			}
		}
		return 0, false, false
	case *ast.UnaryExpr:
		a, b, ok := evalExpr(info, x.X, v, val)
		if !ok {
			return 0, false, false
		}
		switch x.Op {
		case token.NOT:
			return 0, !b, true
		case token.SUB:
			return -a, false, true
		}
	case *ast.BinaryExpr:
		la, lb, ok1 := evalExpr(info, x.X, v, val)
		ra, rb, ok2 := evalExpr(info, x.Y, v, val)
		if !ok1 || !ok2 {
			return 0, false, false
		}
		switch x.Op {
		case token.LAND:
			return 0, lb && rb, true
		case token.LOR:
			return 0, lb || rb, true
		case token.EQL:
			return 0, la == ra, true
		case token.NEQ:
			return 0, la != ra, true
		case token.LSS:
			return 0, la < ra, true
		case token.LEQ:
			return 0, la <= ra, true
		case token.GTR:
			return 0, la > ra, true
		case token.GEQ:
			return 0, la >= ra, true
		case token.ADD:
			return la + ra, false, true
		case token.SUB:
			return la - ra, false, true
		case token.MUL:
			return la * ra, false, true
		case token.QUO:
			if ra == 0 {
				return 0, false, false
			}
			return la / ra, false, true
		case token.REM:
			if ra == 0 {
				return 0, false, false
			}
			return la % ra, false, true
		}
	}
	return 0, false, false
}

type interleave struct {
	mask      uint64 // bit i set: position i belongs to the secondary id
	ok        bool
	why       string
	caseObjs  map[types.Object]bool // objects referenced in the case arm
	defObjs   map[types.Object]bool
	loopVar   types.Object
	ascending bool
	pos       token.Pos
}

func objsIn(info *types.Info, stmts []ast.Stmt) map[types.Object]bool {
	out := map[types.Object]bool{}
	for _, s := range stmts {
		ast.Inspect(s, func(n ast.Node) bool {
			if id, ok := n.(*ast.Ident); ok {
				if o := info.Uses[id]; o != nil {
					out[o] = true
				}
			}
			return true
		})
	}
	return out
}

func analyseInterleave(p *packages.Package, fd *ast.FuncDecl) interleave {
	evalPkg = p
	res := interleave{caseObjs: map[types.Object]bool{}, defObjs: map[types.Object]bool{}}
	info := p.TypesInfo
	var loopVar types.Object
	var sw *ast.SwitchStmt
	ast.Inspect(fd.Body, func(n ast.Node) bool {
		switch x := n.(type) {
		case *ast.ForStmt:
			if as, ok := x.Init.(*ast.AssignStmt); ok && len(as.Lhs) == 1 {
				if id, ok := as.Lhs[0].(*ast.Ident); ok {
					loopVar = info.Defs[id]
				}
			}
			if inc, ok := x.Post.(*ast.IncDecStmt); ok && inc.Tok == token.INC {
				res.ascending = true
			}
		case *ast.RangeStmt:
			if id, ok := x.Key.(*ast.Ident); ok {
				loopVar = info.Defs[id]
				res.ascending = true
			}
		case *ast.SwitchStmt:
			if x.Tag == nil && sw == nil {
				sw = x
			}
		case *ast.IfStmt:
			// the two-armed if/else form of the same choice (inside the loop, no switch seen)
			if blk, isBlk := x.Else.(*ast.BlockStmt); isBlk && loopVar != nil && sw == nil && x.Init == nil {
				sw = &ast.SwitchStmt{Switch: x.Pos(), Body: &ast.BlockStmt{List: []ast.Stmt{
					&ast.CaseClause{Case: x.Pos(), List: []ast.Expr{x.Cond}, Body: x.Body.List},
					&ast.CaseClause{Case: blk.Pos(), List: nil, Body: blk.List},
				}}}
			}
		}
		return true
	})
	if loopVar == nil || sw == nil {
		res.why = "no loop over positions with a tag-less switch (or if/else) found"
		return res
	}
	res.loopVar = loopVar
	res.pos = sw.Pos()
	// locals defined once, before the switch, by an expression: a named position predicate
	evalLocals = map[types.Object]ast.Expr{}
	assigned := map[types.Object]int{}
	ast.Inspect(fd.Body, func(n ast.Node) bool {
		switch x := n.(type) {
		case *ast.AssignStmt:
			for i, l := range x.Lhs {
				id, ok := l.(*ast.Ident)
				if !ok {
					continue
				}
				obj := info.Defs[id]
				if obj == nil {
					obj = info.Uses[id]
				}
				if obj == nil {
					continue
				}
				assigned[obj]++
				if x.Tok == token.DEFINE && len(x.Lhs) == len(x.Rhs) && x.Pos() < sw.Pos() {
					evalLocals[obj] = x.Rhs[i]
				}
			}
		case *ast.IncDecStmt:
			if id, ok := x.X.(*ast.Ident); ok {
				if obj := info.Uses[id]; obj != nil {
					assigned[obj] += 2
				}
			}
		}
		return true
	})
	for obj, n := range assigned {
		if n != 1 || obj == loopVar {
			delete(evalLocals, obj)
		}
	}
	nCase := 0
	for _, st := range sw.Body.List {
		cc := st.(*ast.CaseClause)
		if cc.List == nil {
			res.defObjs = objsIn(info, cc.Body)
			continue
		}
		nCase++
		res.caseObjs = objsIn(info, cc.Body)
		for i := int64(0); i < 64; i++ {
			hit := false
			for _, e := range cc.List {
				_, b, ok := evalExpr(info, e, loopVar, i)
				if !ok {
					res.why = "position predicate is not a closed expression in the loop index"
					return res
				}
				hit = hit || b
			}
			if hit {
				res.mask |= 1 << uint(i)
			}
		}
	}
	if nCase != 1 {
		res.why = fmt.Sprintf("%d case arms (expected one predicate arm and a default)", nCase)
		return res
	}
	res.ok = true
	return res
}

func maskString(m uint64) string {
	var b strings.Builder
	for i := 0; i < 64; i++ {
		if m&(1<<uint(i)) != 0 {
			b.WriteByte('S')
		} else {
			b.WriteByte('P')
		}
	}
	return b.String()
}

func runC13(c *Ctx) {
	w := c.W
	c.Doc("R13.1", "CombineIds and SeparateIds: same secondary-position mask over 0..63 (closed predicate folded per position), equal to the documented pattern; predicate arm ↔ secondary, default arm ↔ primary; ascending positions")
	c.Doc("R13.2", "resolveMatcher: >1 matches → ErrMultipleMatch(matches), 0 → ErrNotFound, else matches[0]; a match is collected iff the predicate accepts; ResolveComment: bug candidates by the primary part of SeparateIds(prefix), comments by CombinedId().HasPrefix(full prefix), 0/1/many outcome")
	c.Doc("R13.3", "Id.HasPrefix / CombinedId.HasPrefix = strings.HasPrefix(raw id, prefix)")
	cfd, p := w.FuncDecl("entity", "", "CombineIds")
	sfd, _ := w.FuncDecl("entity", "", "SeparateIds")
	if cfd == nil || sfd == nil || p == nil {
		c.Undecided("R13.1", "anchor:entity.CombineIds/SeparateIds", "entity", "not found")
	} else {
		ci := analyseInterleave(p, cfd)
		si := analyseInterleave(p, sfd)
		// the choice may be written either way round ("if secondary position … else …" or "if primary
		// position … else …"): normalise so that the mask always marks the positions of the secondary id
		if ci.ok {
			sig0 := p.TypesInfo.Defs[cfd.Name].Type().(*types.Signature)
			if sig0.Params().Len() == 2 {
				prim0, sec0 := sig0.Params().At(0), sig0.Params().At(1)
				if ci.caseObjs[prim0] && !ci.caseObjs[sec0] && ci.defObjs[sec0] && !ci.defObjs[prim0] {
					ci.caseObjs, ci.defObjs, ci.mask = ci.defObjs, ci.caseObjs, ^ci.mask
				}
			}
		}
		if si.ok {
			var ret0 *ast.ReturnStmt
			ast.Inspect(sfd.Body, func(n ast.Node) bool {
				if r, ok := n.(*ast.ReturnStmt); ok {
					ret0 = r
				}
				return true
			})
			if ret0 != nil && len(ret0.Results) == 2 {
				objOf0 := func(e ast.Expr) types.Object {
					var o types.Object
					ast.Inspect(e, func(n ast.Node) bool {
						if id, ok := n.(*ast.Ident); ok && o == nil {
							if u := p.TypesInfo.Uses[id]; u != nil {
								if _, isVar := u.(*types.Var); isVar {
									o = u
								}
							}
						}
						return true
					})
					return o
				}
				po0, so0 := objOf0(ret0.Results[0]), objOf0(ret0.Results[1])
				if po0 != nil && so0 != nil && si.caseObjs[po0] && !si.caseObjs[so0] && si.defObjs[so0] && !si.defObjs[po0] {
					si.caseObjs, si.defObjs, si.mask = si.defObjs, si.caseObjs, ^si.mask
				}
			}
		}
		c.Sites += 128
		switch {
		case !ci.ok:
			c.Undecided("R13.1", "CombineIds:pattern", w.Pos(cfd.Pos()), ci.why)
		case !si.ok:
			c.Undecided("R13.1", "SeparateIds:pattern", w.Pos(sfd.Pos()), si.why)
		default:
			if ci.mask != si.mask {
				first := 0
				for first < 64 && (ci.mask>>uint(first))&1 == (si.mask>>uint(first))&1 {
					first++
				}
				c.Violate("R13.1", "interleaving-pattern-agrees", w.Pos(si.pos), fmt.Sprintf("CombineIds puts the secondary id at %s, SeparateIds reads it from %s (first difference at position %d): a prefix of a combined id splits into the wrong parts", maskString(ci.mask), maskString(si.mask), first))
			} else {
				c.Hold("R13.1", "interleaving-pattern-agrees", w.Pos(si.pos), maskString(ci.mask))
			}
			// documented pattern
			if cfd.Doc != nil {
				for _, cm := range cfd.Doc.List {
					if i := strings.Index(cm.Text, "Format is:"); i >= 0 {
						pat := strings.TrimSpace(cm.Text[i+len("Format is:"):])
						if len(pat) == 64 && strings.Trim(pat, "PS") == "" {
							c.Check(pat == maskString(ci.mask), "R13.1", "interleaving-pattern-as-documented", w.Pos(cfd.Pos()), "equals the documented pattern", "the pattern implemented is "+maskString(ci.mask)+", the documented one "+pat)
						}
					}
				}
			}
			// number of secondary positions
			n := 0
			for i := 0; i < 64; i++ {
				if ci.mask&(1<<uint(i)) != 0 {
					n++
				}
			}
			c.Check(n > 0 && n < 64, "R13.1", "interleaving-both-parts-present", w.Pos(ci.pos), fmt.Sprintf("%d secondary and %d primary positions", n, 64-n), "one of the two ids never appears in the combined id")
			c.Check(ci.ascending && si.ascending, "R13.1", "interleaving-ascending", w.Pos(ci.pos), "positions visited in ascending order", "positions are not visited in ascending order")
			// arms: CombineIds case arm uses parameter #2 (secondary), default arm parameter #1
			sig := p.TypesInfo.Defs[cfd.Name].Type().(*types.Signature)
			prim, sec := sig.Params().At(0), sig.Params().At(1)
			okArms := ci.caseObjs[sec] && !ci.caseObjs[prim] && ci.defObjs[prim] && !ci.defObjs[sec]
			c.Check(okArms, "R13.1", "CombineIds:arms", w.Pos(ci.pos), "predicate arm consumes the secondary id, default arm the primary", "the arms of CombineIds consume the wrong id (primary and secondary swapped)")
			// SeparateIds: the builder written in the case arm is the one whose String() is the second result
			var ret *ast.ReturnStmt
			ast.Inspect(sfd.Body, func(n ast.Node) bool {
				if r, ok := n.(*ast.ReturnStmt); ok {
					ret = r
				}
				return true
			})
			okSep := false
			if ret != nil && len(ret.Results) == 2 {
				objOf := func(e ast.Expr) types.Object {
					var o types.Object
					ast.Inspect(e, func(n ast.Node) bool {
						if id, ok := n.(*ast.Ident); ok && o == nil {
							if u := p.TypesInfo.Uses[id]; u != nil {
								if _, isVar := u.(*types.Var); isVar {
									o = u
								}
							}
						}
						return true
					})
					return o
				}
				po, so := objOf(ret.Results[0]), objOf(ret.Results[1])
				okSep = po != nil && so != nil && po != so && si.caseObjs[so] && !si.caseObjs[po] && si.defObjs[po] && !si.defObjs[so]
			}
			c.Check(okSep, "R13.1", "SeparateIds:arms", w.Pos(si.pos), "predicate arm feeds the secondary result, default arm the primary", "the arms of SeparateIds feed the wrong result (primary and secondary swapped)")
		}
	}
	// R13.2 resolveMatcher
	rm := w.Method("cache", "SubCache", "resolveMatcher")
	if rm == nil {
		c.Undecided("R13.2", "anchor:SubCache.resolveMatcher", "cache", "not found")
	} else {
		c.seeFn(funcName(rm))
		pos := w.FnPos(rm)
		multi, none := false, false
		var matchSlice ssa.Value
		for _, g := range cmpGuards(rm, nil) {
			c.Sites++
			lc, isCall := g.X.(*ssa.Call)
			if !isCall {
				continue
			}
			bi, isB := lc.Common().Value.(*ssa.Builtin)
			if !isB || bi.Name() != "len" {
				continue
			}
			k, isK := constInt(g.Y)
			if !isK {
				continue
			}
			e := errEdge(g.If, defaultFail)
			fb := g.If.Block().Succs[e]
			blockCalls := func(name string) *ssa.Call {
				for _, ins := range fb.Instrs {
					if cl, ok := ins.(*ssa.Call); ok {
						if n, _ := callName(cl.Common()); n == name {
							return cl
						}
					}
				}
				return nil
			}
			if (g.Op == token.GTR && k == 1) || (g.Op == token.GEQ && k == 2) {
				if mc := blockCalls("entity.NewErrMultipleMatch"); mc != nil {
					if len(mc.Common().Args) == 2 && mc.Common().Args[1] == lc.Common().Args[0] {
						multi = true
						matchSlice = lc.Common().Args[0]
					}
				}
			}
			if (g.Op == token.EQL && k == 0) || (g.Op == token.LSS && k == 1) || (g.Op == token.LEQ && k == 0) {
				if blockCalls("entity.NewErrNotFound") != nil {
					none = true
				}
			}
		}
		c.Check(multi, "R13.2", "resolveMatcher:multiple", pos, "len > 1 → ErrMultipleMatch carrying the matches", "more than one match does not produce a multiple-match error listing exactly the matches")
		c.Check(none, "R13.2", "resolveMatcher:none", pos, "len == 0 → ErrNotFound", "no match does not produce a not-found error")
		okOne := false
		for _, r := range Returns(rm) {
			if returnKind(r) == RetError {
				continue
			}
			if u, isU := ReturnResult(r, 0).(*ssa.UnOp); isU {
				if ia, isIA := u.X.(*ssa.IndexAddr); isIA {
					if k, isK := constInt(ia.Index); isK && k == 0 && (matchSlice == nil || ia.X == matchSlice) {
						okOne = true
					}
				}
			}
		}
		c.Check(okOne, "R13.2", "resolveMatcher:single", pos, "otherwise the single match", "the success result is not the single match")
		// collected iff predicate true
		okColl := false
		if matchSlice != nil {
			for _, v := range appendedValues(matchSlice) {
				// the block appending must be control dependent on the predicate accepting and on nothing else
				var apBlk *ssa.BasicBlock
				for _, ap := range appendCallsOf(matchSlice) {
					for _, av := range appendedValues(ap) {
						if av == v {
							apBlk = ap.Block()
						}
					}
				}
				if apBlk == nil {
					continue
				}
				saw := false
				only, _ := onlyControlledBy(apBlk, func(cc controlCond) bool {
					cl, isCall := cc.If.Cond.(*ssa.Call)
					if !isCall || cc.Edge != 0 {
						return false
					}
					if _, isParam := cl.Common().Value.(*ssa.Parameter); !isParam {
						return false
					}
					// the id collected is that of the excerpt tested
					if idc, isIdc := v.(*ssa.Call); isIdc && len(cl.Common().Args) == 1 {
						recv := idc.Common().Value
						if recv == cl.Common().Args[0] || stripConv(recv) == stripConv(cl.Common().Args[0]) {
							saw = true
							return true
						}
					}
					return false
				})
				if only && saw {
					okColl = true
				}
			}
		}
		c.Check(okColl, "R13.2", "resolveMatcher:collect-iff-accepted", pos, "an id is collected iff the predicate accepts its excerpt", "ids are not collected exactly when the predicate accepts the excerpt")
	}
	// ResolveComment
	rc := w.Method("cache", "RepoCacheBug", "ResolveComment")
	if rc == nil {
		c.Undecided("R13.2", "anchor:RepoCacheBug.ResolveComment", "cache", "not found")
	} else {
		c.seeFn(funcName(rc))
		pos := w.FnPos(rc)
		var prefixParam ssa.Value
		for _, pp := range rc.Params {
			if isStringType(pp.Type()) {
				prefixParam = pp
			}
		}
		okBug, okComment := false, false
		for _, hf := range fnAndHelpers(rc, 1) {
			for _, cl := range Calls(hf) {
				if hf == rc || !strings.HasSuffix(cl.Name, "entity.Id.HasPrefix") {
					continue
				}
				// the candidate scan extracted into a helper: its prefix parameter stands for the caller's argument
				c.Sites++
				for _, a := range argsThroughCaller(rc, hf, cl.Args()[0]) {
					if sc := hasOriginCall(a, "entity.SeparateIds", 0); sc != nil && sc.Common().Args[0] == prefixParam {
						okBug = true
					}
				}
			}
		}
		for _, cl := range Calls(rc) {
			c.Sites++
			if strings.HasSuffix(cl.Name, "entity.Id.HasPrefix") {
				a := cl.Args()[0]
				if sc := hasOriginCall(a, "entity.SeparateIds", 0); sc != nil && sc.Common().Args[0] == prefixParam {
					okBug = true
				}
			}
			if strings.HasSuffix(cl.Name, "entity.CombinedId.HasPrefix") {
				if cl.Args()[0] == prefixParam {
					okComment = true
				}
			}
		}
		c.Check(okBug, "R13.2", "ResolveComment:bug-by-primary-part", pos, "bugs are pre-selected by the primary part of the separated prefix", "bug candidates are not selected with the primary part (result 0) of SeparateIds(prefix)")
		c.Check(okComment, "R13.2", "ResolveComment:comment-by-full-prefix", pos, "comments are matched with the full combined prefix", "comments are not matched with the full prefix")
		multi, none := false, false
		for _, g := range cmpGuards(rc, nil) {
			lc, isCall := g.X.(*ssa.Call)
			if !isCall {
				continue
			}
			if bi, isB := lc.Common().Value.(*ssa.Builtin); !isB || bi.Name() != "len" {
				continue
			}
			k, isK := constInt(g.Y)
			if !isK {
				continue
			}
			if (g.Op == token.GTR && k == 1) || (g.Op == token.GEQ && k == 2) {
				multi = true
			}
			if (g.Op == token.EQL && k == 0) || (g.Op == token.LSS && k == 1) || (g.Op == token.LEQ && k == 0) {
				none = true
			}
		}
		c.Check(multi && none, "R13.2", "ResolveComment:outcome", pos, "several matches and no match are errors", "ResolveComment does not refuse several matches / no match")
	}
	checkC13Scans(c)
	checkForgetsAfterRemoval(c, "R14.2")
	// the instance whose comments are scanned is the merged one: a pull replaces the loaded instance (shared with C02/C11)
	checkCacheMergeFold(c, "R2.6")
	checkSingleInstance(c, newLockWorld(c.W))
	// a stale cache file is refused: every entity in git is addressable after a restart (shared with C11)
	checkLoadHeuristic(c)
	checkExcerptsDeletedOnlyByRemoval(c, "R11.13")
	// what the cache files under an id is the entity of that id; comments resolved exist in the stored or staged operations (shared with C07/C10)
	checkMergeRefIdGuard(c)
	checkWithSnapshot(c)
	checkCommentCombinedIdStable(c, "R13.8")
	checkResolveCommentLoadError(c, "R13.9")
	// what Resolve / ResolveComment hand out is a live instance: use refreshes its LRU position (shared with C18)
	checkLRUAndWriteSection(c, newLockWorld(c.W))
	checkRebuildAndCLIRemoval(c)
	// R13.3
	for _, t := range []string{"Id", "CombinedId"} {
		fn := w.Method("entity", t, "HasPrefix")
		if fn == nil {
			c.Undecided("R13.3", "anchor:entity."+t+".HasPrefix", "entity", "not found")
			continue
		}
		ok := false
		for _, cl := range CallsNamed(fn, "strings.HasPrefix") {
			c.Sites++
			a := cl.Args()
			p0, isP0 := stripConv(a[0]).(*ssa.Parameter)
			p1, isP1 := a[1].(*ssa.Parameter)
			if isP0 && isP1 && p0 == fn.Params[0] && p1 == fn.Params[1] {
				for _, r := range Returns(fn) {
					if r.Results[0] == ssa.Value(cl.Value()) {
						ok = true
					}
				}
			}
		}
		c.Check(ok, "R13.3", "entity."+t+".HasPrefix", w.FnPos(fn), "strings.HasPrefix(raw id, prefix)", t+".HasPrefix is not strings.HasPrefix(id, prefix)")
	}
	// ResolvePrefix / ResolveExcerptPrefix closures use Id().HasPrefix(prefix)
	for _, m := range []string{"ResolvePrefix", "ResolveExcerptPrefix"} {
		fn := w.Method("cache", "SubCache", m)
		if fn == nil {
			continue
		}
		ok := false
		for _, cl := range CallsDeep(fn) {
			if strings.HasSuffix(cl.Name, "entity.Id.HasPrefix") {
				for _, o := range origins(cl.Args()[0]) {
					if o.Kind == "freevar" || o.Kind == "param" {
						ok = true
					}
				}
			}
		}
		c.Check(ok, "R13.3", "cache.SubCache."+m, w.FnPos(fn), "matches excerpt.Id().HasPrefix(prefix)", m+" does not match by id prefix")
	}
}

// earlyLoopExits lists the edges that leave a natural loop of fn from another block than the
// loop header (break, return, goto) and do not lead to a failing return: a scan with such an
// edge does not visit every element.
type loopExit struct {
	Header, From, To *ssa.BasicBlock
}

func earlyLoopExits(fn *ssa.Function) (exits []loopExit, loops int) {
	for _, h := range fn.Blocks {
		if !isLoopHeader(h) {
			continue
		}
		loops++
		for _, b := range fn.Blocks {
			if b == h || !inLoop(b, h) {
				continue
			}
			for _, s := range b.Succs {
				if inLoop(s, h) {
					continue
				}
				if strictlyFails(s, defaultFail) {
					continue
				}
				exits = append(exits, loopExit{h, b, s})
			}
		}
	}
	return
}

// onlyControlledBy: every branch edge block b is control dependent on is the condition of a
// loop header (the range continuing) or accepted by ok; returns the offending condition.
func onlyControlledBy(b *ssa.BasicBlock, ok func(cc controlCond) bool) (bool, *ssa.If) {
	for _, cc := range controlConds(b, nil) {
		if isLoopHeader(cc.If.Block()) {
			continue
		}
		if ok(cc) {
			continue
		}
		return false, cc.If
	}
	return true, nil
}

// reachWithoutEdge: is block `to` reachable from block `from` without taking an edge for
// which forbidden(block, successor index) holds?
func reachWithoutEdge(from, to *ssa.BasicBlock, forbidden func(b *ssa.BasicBlock, succ int) bool) bool {
	seen := map[*ssa.BasicBlock]bool{from: true}
	q := []*ssa.BasicBlock{from}
	for len(q) > 0 {
		x := q[0]
		q = q[1:]
		if x == to {
			return true
		}
		for i, s := range x.Succs {
			if seen[s] || forbidden(x, i) {
				continue
			}
			seen[s] = true
			q = append(q, s)
		}
	}
	return false
}

func checkC13Scans(c *Ctx) {
	w := c.W
	c.Doc("R13.4", "the scans behind prefix resolution are complete: no edge leaves a loop of resolveMatcher / ResolveComment before the range is exhausted except to a failing return; a candidate is collected under no other condition than the prefix test (and the success of resolving the candidate bug); the comment and bug returned are those of the collected match; the multiple-match error carries the collected ids")
	c.Doc("R13.5", "commands/select.Resolve falls back to the selected entity only when ResolvePrefix(args[0]) failed with not-found: the selected() call is reachable from the ResolvePrefix call only through the true outcome of entity.IsErrNotFound on that call's error, and the other outcome returns an error")
	for _, tm := range [][2]string{{"SubCache", "resolveMatcher"}, {"RepoCacheBug", "ResolveComment"}} {
		fn := w.Method("cache", tm[0], tm[1])
		if fn == nil {
			c.Undecided("R13.4", "anchor:"+tm[1], "cache", "not found")
			continue
		}
		fn = bodyOf(fn)
		exits, loops := earlyLoopExits(fn)
		c.Sites += len(fn.Blocks)
		if loops == 0 {
			c.Undecided("R13.4", tm[1]+":scan-complete", w.FnPos(fn), "no loop recognised in the scan")
			continue
		}
		if len(exits) == 0 {
			c.Hold("R13.4", tm[1]+":scan-complete", w.FnPos(fn), fmt.Sprintf("%d loop(s), left only at exhaustion or to a failing return", loops))
		} else {
			e := exits[0]
			pos := w.FnPos(fn)
			if len(e.From.Instrs) > 0 {
				pos = w.InstrPos(e.From.Instrs[len(e.From.Instrs)-1])
				for _, ins := range e.From.Instrs {
					if ins.Pos().IsValid() {
						pos = w.InstrPos(ins)
					}
				}
			}
			c.Violate("R13.4", tm[1]+":scan-complete", pos, fmt.Sprintf("the loop at %s is left before every element was examined (block %d → %d): later matches are not seen, so an ambiguous prefix can resolve or the error lists only some matches", w.InstrPos(firstPosInstr(e.Header)), e.From.Index, e.To.Index))
		}
	}
	// ResolveComment: collection conditions and returned values
	if rc := w.Method("cache", "RepoCacheBug", "ResolveComment"); rc != nil {
		pos := w.FnPos(rc)
		var prefixParam ssa.Value
		for _, pp := range rc.Params {
			if isStringType(pp.Type()) {
				prefixParam = pp
			}
		}
		var lenSlice ssa.Value
		carries := false
		for _, g := range cmpGuards(rc, nil) {
			lc, isCall := g.X.(*ssa.Call)
			if !isCall {
				continue
			}
			if bi, isB := lc.Common().Value.(*ssa.Builtin); !isB || bi.Name() != "len" {
				continue
			}
			k, isK := constInt(g.Y)
			if !isK || !((g.Op == token.GTR && k == 1) || (g.Op == token.GEQ && k == 2)) {
				continue
			}
			lenSlice = lc.Common().Args[0]
			fb := g.If.Block().Succs[errEdge(g.If, defaultFail)]
			for _, ins := range fb.Instrs {
				if cl, ok := ins.(*ssa.Call); ok {
					if n, _ := callName(cl.Common()); n == "entity.NewErrMultipleMatch" && len(cl.Common().Args) == 2 && cl.Common().Args[1] == lenSlice {
						carries = true
					}
				}
			}
		}
		c.Check(carries, "R13.4", "ResolveComment:multiple-carries-matches", pos, "the multiple-match error carries the slice that was counted", "the multiple-match error of ResolveComment does not list the collected matches")
		okCond, okVals := false, false
		var why string
		if lenSlice != nil {
			for _, ap := range appendCallsOf(lenSlice) {
				blk := ap.Block()
				sawPrefix := false
				ok, bad := onlyControlledBy(blk, func(cc controlCond) bool {
					if cl, isCall := cc.If.Cond.(*ssa.Call); isCall && cc.Edge == 0 {
						if n, _ := callName(cl.Common()); strings.HasSuffix(n, "entity.CombinedId.HasPrefix") {
							a := (&Call{Instr: cl}).Args()
							if len(a) > 0 && a[0] == prefixParam {
								sawPrefix = true
								return true
							}
						}
					}
					// err == nil of resolving the candidate
					if bo, isB := cc.If.Cond.(*ssa.BinOp); isB && isErrorType(bo.X.Type()) && isNilConst(bo.Y) {
						return (bo.Op == token.NEQ && cc.Edge == 1) || (bo.Op == token.EQL && cc.Edge == 0)
					}
					return false
				})
				if ok && sawPrefix {
					okCond = true
				} else if bad != nil {
					why = "additionally conditional on " + w.InstrPos(bad)
				}
				// returned comment id and bug: set in the collecting block
				for _, r := range Returns(rc) {
					if returnKind(r) == RetError {
						continue
					}
					idOK, bugOK := false, false
					for _, o := range origins(ReturnResult(r, 1)) {
						if cl, isCall := o.Val.(*ssa.Call); isCall && o.Kind == "call" && strings.HasSuffix(o.Name, "Comment.CombinedId") && cl.Block() == blk {
							idOK = true
						}
					}
					for _, o := range origins(ReturnResult(r, 0)) {
						if o.Kind == "call" && strings.HasSuffix(o.Name, ".Resolve") && o.Idx == 0 {
							if cl, isCall := o.Val.(*ssa.Call); isCall && cl.Block().Dominates(blk) {
								bugOK = true
							}
						}
					}
					// … and it becomes the result only where a comment matched: along the phi chain of the
					// returned bug, a resolved candidate enters from the collecting block and from nowhere else
					seenPhi := map[*ssa.Phi]bool{}
					var walk func(v ssa.Value)
					walk = func(v ssa.Value) {
						phi, isPhi := v.(*ssa.Phi)
						if !isPhi || seenPhi[phi] {
							return
						}
						seenPhi[phi] = true
						for i, e := range phi.Edges {
							if ex, isEx := e.(*ssa.Extract); isEx {
								if cl, isCall := ex.Tuple.(*ssa.Call); isCall {
									if n, _ := callName(cl.Common()); strings.HasSuffix(n, ".Resolve") && phi.Block().Preds[i] != blk {
										bugOK = false
									}
								}
								continue
							}
							walk(e)
						}
					}
					walk(ReturnResult(r, 0))
					if idOK && bugOK {
						okVals = true
					}
				}
			}
		}
		// the bug candidates: collected iff Id().HasPrefix(primary part)
		okCand := false
		for _, hf := range fnAndHelpers(rc, 1) {
			for _, cl := range Calls(hf) {
				if !strings.HasSuffix(cl.Name, "entity.Id.HasPrefix") {
					continue
				}
				cv, _ := cl.Instr.(*ssa.Call)
				for _, b := range hf.Blocks {
					for _, ins := range b.Instrs {
						ap, isCall := ins.(*ssa.Call)
						if !isCall {
							continue
						}
						if bi, isB := ap.Common().Value.(*ssa.Builtin); !isB || bi.Name() != "append" {
							continue
						}
						saw := false
						only, _ := onlyControlledBy(b, func(cc controlCond) bool {
							if cc.If.Cond == ssa.Value(cv) && cc.Edge == 0 {
								saw = true
								return true
							}
							return false
						})
						if only && saw {
							// the id appended is the id tested
							for _, av := range appendedValues(ap) {
								if idc, isIdc := av.(*ssa.Call); isIdc && len(idc.Common().Args) > 0 && len(cv.Common().Args) > 0 {
									if tested, isT := cv.Common().Args[0].(*ssa.Call); isT && len(tested.Common().Args) > 0 && tested.Common().Args[0] == idc.Common().Args[0] {
										okCand = true
									}
								}
							}
						}
					}
				}
			}
		}
		c.Check(okCand, "R13.4", "ResolveComment:candidates-iff-primary-prefix", pos, "a bug is a candidate iff its id has the primary part of the prefix", "bug candidates are not collected exactly when excerpt.Id().HasPrefix(primary part) holds")
		c.Check(okCond, "R13.4", "ResolveComment:collect-iff-prefix", pos, "a bug id is collected for every comment whose combined id has the prefix, under no other condition", "a comment match is not collected exactly when CombinedId().HasPrefix(prefix) holds "+why)
		c.Check(okVals, "R13.4", "ResolveComment:returns-the-match", pos, "the bug and the combined id returned are those of the collected match", "the values returned on success are not the resolved candidate bug and the combined id of the matching comment")
	}
	// the multiple-match error hands on the ids it is given, all of them, untouched
	if nm := w.Func("entity", "NewErrMultipleMatch"); nm != nil {
		c.seeFn(funcName(nm))
		okKeep := false
		for _, st := range storedToField(nm, "Matching") {
			if len(nm.Params) == 2 && st.Val == ssa.Value(nm.Params[1]) {
				okKeep = true
			}
		}
		touched := ""
		for _, b := range nm.Blocks {
			for _, ins := range b.Instrs {
				switch x := ins.(type) {
				case *ssa.Store:
					if ia, isIA := x.Addr.(*ssa.IndexAddr); isIA && len(nm.Params) == 2 && ia.X == ssa.Value(nm.Params[1]) {
						touched = w.InstrPos(x)
					}
				case *ssa.Call:
					if n, _ := callName(x.Common()); strings.HasPrefix(n, "sort.") || strings.HasPrefix(n, "slices.") {
						touched = w.InstrPos(x)
					}
				}
			}
		}
		c.Check(okKeep && touched == "", "R13.4", "NewErrMultipleMatch:carries-all-ids", w.FnPos(nm), "the error lists exactly the ids it was given", "NewErrMultipleMatch does not store the ids it is given as they are (it filters, reorders or rebuilds the list): the multiple-match error no longer lists exactly the matching ids")
	} else {
		c.Undecided("R13.4", "anchor:entity.NewErrMultipleMatch", "entity", "not found")
	}
	// prefix resolution has one way in: the excerpt scan. Every result of ResolvePrefix /
	// ResolveExcerptPrefix (and of the matcher variants) comes out of resolveMatcher
	for _, m := range []string{"ResolvePrefix", "ResolveExcerptPrefix", "ResolveMatcher", "ResolveExcerptMatcher"} {
		fn := w.Method("cache", "SubCache", m)
		if fn == nil {
			c.Undecided("R13.4", "anchor:SubCache."+m, "cache", "not found")
			continue
		}
		fn = bodyOf(fn)
		c.seeFn(funcName(fn))
		okOnly, why := true, ""
		viaScan := func(v ssa.Value) bool {
			for _, o := range origins(v) {
				if o.Kind != "call" {
					continue
				}
				if strings.HasSuffix(o.Name, "SubCache.ResolveMatcher") || strings.HasSuffix(o.Name, "SubCache.ResolveExcerptMatcher") {
					return true
				}
				// Resolve(id) / ResolveExcerpt(id) with id out of resolveMatcher
				if cv, isCall := o.Val.(*ssa.Call); isCall && (strings.HasSuffix(o.Name, "SubCache.Resolve") || strings.HasSuffix(o.Name, "SubCache.ResolveExcerpt")) {
					args := (&Call{Instr: cv}).Args()
					if len(args) == 1 && hasOriginCallAny(args[0], "SubCache.resolveMatcher") && dominatedBySuccessOfNamed(fn, "SubCache.resolveMatcher", cv) {
						return true
					}
				}
			}
			return false
		}
		for _, r := range Returns(fn) {
			c.Sites++
			if returnKind(r) == RetError {
				continue
			}
			if !viaScan(ReturnResult(r, 0)) {
				okOnly, why = false, "the result returned at "+w.InstrPos(r)+" does not come out of the excerpt scan (resolveMatcher): a shortcut (for instance through the entities already in memory) answers an ambiguous prefix with whichever match it meets first"
			}
		}
		c.Check(okOnly, "R13.4", "SubCache."+m+":only-through-the-scan", w.FnPos(fn), "every success result comes out of resolveMatcher", why)
	}
	// R13.5
	sel := w.Func("commands/select", "Resolve")
	if sel == nil {
		c.Undecided("R13.5", "anchor:select.Resolve", "commands/select", "not found")
		return
	}
	sel = bodyOf(sel)
	c.seeFn(funcName(sel))
	var rp, selCall *ssa.Call
	for _, cl := range Calls(sel) {
		c.Sites++
		if strings.HasSuffix(cl.Name, "Resolver.ResolvePrefix") {
			rp, _ = cl.Instr.(*ssa.Call)
		}
		if cl.Name == "commands/select.selected" {
			selCall, _ = cl.Instr.(*ssa.Call)
		}
	}
	if rp == nil || selCall == nil {
		c.Undecided("R13.5", "select.Resolve:fallback-only-on-not-found", w.FnPos(sel), "ResolvePrefix / selected call not found")
		return
	}
	errs := map[ssa.Value]bool{}
	for _, e := range errValues(rp) {
		errs[e] = true
	}
	// argument is args[0]
	isTest := func(b *ssa.BasicBlock) (neg bool, ok bool) {
		if len(b.Instrs) == 0 {
			return
		}
		iff, isIf := b.Instrs[len(b.Instrs)-1].(*ssa.If)
		if !isIf {
			return
		}
		cond := iff.Cond
		for {
			if u, isU := cond.(*ssa.UnOp); isU && u.Op == token.NOT {
				neg = !neg
				cond = u.X
				continue
			}
			break
		}
		cl, isCall := cond.(*ssa.Call)
		if !isCall {
			return
		}
		if n, _ := callName(cl.Common()); n != "entity.IsErrNotFound" || len(cl.Common().Args) != 1 || !errs[cl.Common().Args[0]] {
			return
		}
		return neg, true
	}
	gate := 0
	otherFails := false
	for _, b := range sel.Blocks {
		if neg, ok := isTest(b); ok {
			gate++
			fe := 1
			if neg {
				fe = 0
			}
			if strictlyFails(b.Succs[fe], defaultFail) {
				otherFails = true
			}
		}
	}
	leak := reachWithoutEdge(rp.Block(), selCall.Block(), func(b *ssa.BasicBlock, succ int) bool {
		neg, ok := isTest(b)
		if !ok {
			return false
		}
		te := 0
		if neg {
			te = 1
		}
		return succ == te
	})
	// the first argument is always tried as a prefix: the only way around ResolvePrefix is "no argument"
	noArgEdge := func(b *ssa.BasicBlock, succ int) bool {
		if len(b.Instrs) == 0 {
			return false
		}
		iff, isIf := b.Instrs[len(b.Instrs)-1].(*ssa.If)
		if !isIf {
			return false
		}
		bo, isBo := iff.Cond.(*ssa.BinOp)
		if !isBo || !isCmpOp(bo.Op) {
			return false
		}
		op, lenV, kV := bo.Op, bo.X, bo.Y
		if _, isK := constInt(kV); !isK {
			op, lenV, kV = swapOp(bo.Op), bo.Y, bo.X
		}
		k, isK := constInt(kV)
		lc, isLen := lenV.(*ssa.Call)
		if !isK || !isLen {
			return false
		}
		if bi, isB := lc.Common().Value.(*ssa.Builtin); !isB || bi.Name() != "len" {
			return false
		}
		if pr, isP := lc.Common().Args[0].(*ssa.Parameter); !isP || pr != rp.Parent().Params[len(rp.Parent().Params)-1] {
			return false
		}
		eval := func(n int64) int {
			t := false
			switch op {
			case token.GTR:
				t = n > k
			case token.GEQ:
				t = n >= k
			case token.LSS:
				t = n < k
			case token.LEQ:
				t = n <= k
			case token.EQL:
				t = n == k
			case token.NEQ:
				t = n != k
			}
			if t {
				return 0
			}
			return 1
		}
		e0 := eval(0)
		return succ == e0 && eval(1) != e0 && eval(2) != e0 && eval(1<<20) != e0
	}
	bypass := reachWithoutEdge(sel.Blocks[0], selCall.Block(), func(b *ssa.BasicBlock, succ int) bool {
		return b.Succs[succ] == rp.Block() || noArgEdge(b, succ)
	}) && rp.Block() != sel.Blocks[0]
	argOK := false
	if len(rp.Common().Args) >= 1 {
		a := rp.Common().Args[len(rp.Common().Args)-1]
		if u, isU := a.(*ssa.UnOp); isU {
			if ia, isIA := u.X.(*ssa.IndexAddr); isIA {
				if k, isK := constInt(ia.Index); isK && k == 0 {
					if pr, isP := ia.X.(*ssa.Parameter); isP && pr == sel.Params[len(sel.Params)-1] {
						argOK = true
					}
				}
			}
		}
	}
	c.Check(!bypass && argOK, "R13.5", "select.Resolve:first-argument-always-tried", w.InstrPos(rp),
		"ResolvePrefix(args[0]) is skipped only when there is no argument",
		"the selected entity can be reached without trying args[0] as a prefix although an argument was given (or the prefix tried is not args[0]): a prefix the user typed is ignored and the command acts on the selected entity")
	c.Check(gate > 0 && !leak && otherFails, "R13.5", "select.Resolve:fallback-only-on-not-found", w.InstrPos(selCall),
		"the selection is consulted only after IsErrNotFound(err of ResolvePrefix); every other failure is returned",
		"a failure of ResolvePrefix(args[0]) other than not-found (e.g. an ambiguous prefix) falls through to the selected entity: the command then acts on an entity the prefix does not designate")
}

func firstPosInstr(b *ssa.BasicBlock) ssa.Instruction {
	for _, ins := range b.Instrs {
		if ins.Pos().IsValid() {
			return ins
		}
	}
	for _, p := range b.Preds {
		for _, ins := range p.Instrs {
			if ins.Pos().IsValid() {
				return ins
			}
		}
	}
	return b.Instrs[0]
}

// appendCallsOf: the append calls whose results flow (through phis and further appends) into v.
func appendCallsOf(v ssa.Value) []*ssa.Call {
	var out []*ssa.Call
	seen := map[ssa.Value]bool{}
	var walk func(v ssa.Value)
	walk = func(v ssa.Value) {
		if v == nil || seen[v] {
			return
		}
		seen[v] = true
		switch x := v.(type) {
		case *ssa.Phi:
			for _, e := range x.Edges {
				walk(e)
			}
		case *ssa.Call:
			if b, ok := x.Common().Value.(*ssa.Builtin); ok && b.Name() == "append" {
				out = append(out, x)
				walk(x.Common().Args[0])
			}
		}
	}
	walk(v)
	return out
}

// dominatedBySuccessOfNamed: at is dominated by the success edge of a call (in fn) whose name ends with suffix.
func dominatedBySuccessOfNamed(fn *ssa.Function, suffix string, at ssa.Instruction) bool {
	for _, cl := range Calls(fn) {
		if strings.HasSuffix(cl.Name, suffix) && cl.Value() != nil && dominatedBySuccess(cl.Value(), at) {
			return true
		}
	}
	return false
}

// argsThroughCaller: v, a value inside helper; when it is a parameter of helper, the arguments the calls
// of helper in caller pass for it; otherwise v itself.
func argsThroughCaller(caller, helper *ssa.Function, v ssa.Value) []ssa.Value {
	pr, isP := v.(*ssa.Parameter)
	if !isP {
		return []ssa.Value{v}
	}
	idx := -1
	for i, p := range helper.Params {
		if p == pr {
			idx = i
		}
	}
	var out []ssa.Value
	for _, cl := range Calls(caller) {
		callee := cl.Instr.Common().StaticCallee()
		if callee == nil {
			continue
		}
		if callee != helper && bodyOf(callee) != helper {
			continue
		}
		if args := cl.Instr.Common().Args; idx >= 0 && idx < len(args) {
			out = append(out, args[idx])
		}
	}
	return out
}
