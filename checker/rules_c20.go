package main

import (
	"bytes"
	"fmt"
	"go/ast"
	"go/printer"
	"go/token"
	"go/types"
	"regexp"
	"sort"
	"strings"

	"golang.org/x/tools/go/ssa"
)

func init() {
	register("C20",
		"The window arithmetic of pagination is a value statement and is not computed. Decided are its structural necessary conditions: (R20.1) each generated connection function is the template under the substitution of its go:generate line (one algorithm, seven lists); on the template and every copy: (R20.2) every slice bounded by *input.First / *input.Last is dominated by the continuing edge of the '< 0 → error' test and by the 'len(edges) > n' test; (R20.3) the branch dropping a suffix sets HasNextPage and the one dropping a prefix sets HasPreviousPage, start/end cursors are cursors[0] / cursors[len-1] under len > 0, totalCount is the length of the source as passed in; (R20.4) an undecodable cursor is an error and both cursor functions use the same prefix; (R20.5) the source handed to every pagination call has a stable order: it is not the result of an unsorted walk over a map.",
		[]string{"genny generated the copies by textual substitution (checked, not assumed)", "exactly-once traversal over all sizes and cursor positions is not computed"},
		runC20)
}

var genLine = regexp.MustCompile(`-out=(\S+)\s+gen\s+"([^"]+)"`)

func runC20(c *Ctx) {
	w := c.W
	c.Doc("R20.1", "each gen_*.go pagination function equals connection_template.go's NameCon under the substitution declared on its go:generate line (AST printed without comments)")
	c.Doc("R20.2", "slices bounded by *input.First / *input.Last are dominated by the non-negative edge of the '< 0 → error' test and by len(edges) > n")
	c.Doc("R20.3", "suffix truncation sets HasNextPage, prefix truncation sets HasPreviousPage; StartCursor/EndCursor are cursors[0]/cursors[len-1] under len>0; totalCount = len(source parameter)")
	c.Doc("R20.4", "CursorToOffset fails on undecodable input; OffsetToCursor and CursorToOffset share the cursor prefix constant")
	c.Doc("R20.5", "the source of every connections.*Con call is not an unsorted map walk")
	p := w.Pkg("api/graphql/connections")
	if p == nil {
		c.Undecided("R20.1", "anchor:api/graphql/connections", "api/graphql/connections", "package not found")
		return
	}
	// template body
	var tmplDecl *ast.FuncDecl
	decls := map[string]*ast.FuncDecl{}
	var genLines []string
	for _, f := range p.Syntax {
		for _, cg := range f.Comments {
			for _, cm := range cg.List {
				if strings.HasPrefix(cm.Text, "//go:generate genny") {
					genLines = append(genLines, cm.Text)
				}
			}
		}
		for _, d := range f.Decls {
			if fd, ok := d.(*ast.FuncDecl); ok && fd.Recv == nil && strings.HasSuffix(fd.Name.Name, "Con") {
				decls[fd.Name.Name] = fd
				if fd.Name.Name == "NameCon" {
					tmplDecl = fd
				}
			}
		}
	}
	printBody := func(fd *ast.FuncDecl) string {
		var buf bytes.Buffer
		// print without comments: a fresh fileset-less printing of the node drops free-floating comments
		cfg := printer.Config{Mode: printer.RawFormat}
		_ = cfg.Fprint(&buf, token.NewFileSet(), fd.Body)
		return strings.Join(strings.Fields(buf.String()), " ")
	}
	var conFns []string
	if tmplDecl == nil {
		c.Undecided("R20.1", "anchor:connection_template.NameCon", "api/graphql/connections", "template function not found")
	} else {
		tmpl := printBody(tmplDecl)
		if len(genLines) < 5 {
			c.Violate("R20.1", "expected:go-generate-lines", "api/graphql/connections/connections.go", fmt.Sprintf("%d go:generate genny lines found (reference 7)", len(genLines)))
		}
		for _, gl := range genLines {
			m := genLine.FindStringSubmatch(gl)
			if m == nil {
				continue
			}
			sub := map[string]string{}
			for _, kv := range strings.Fields(m[2]) {
				if i := strings.IndexByte(kv, '='); i > 0 {
					sub[kv[:i]] = kv[i+1:]
				}
			}
			name := sub["Name"]
			fd := decls[name+"Con"]
			c.Sites++
			key := name + "Con"
			if fd == nil {
				c.Violate("R20.1", key, "api/graphql/connections/"+m[1], "the generated pagination function "+name+"Con does not exist")
				continue
			}
			conFns = append(conFns, name+"Con")
			want := tmpl
			for _, g := range []string{"NodeType", "EdgeType", "ConnectionType"} {
				val := sub[g]
				// inside package connections the generated code refers to its own types unqualified
				want = regexp.MustCompile(`\b`+g+`\b`).ReplaceAllString(want, val)
			}
			want = regexp.MustCompile(`\bName([A-Z]\w*)`).ReplaceAllString(want, name+"$1")
			got := printBody(fd)
			if got != want {
				// locate the first difference for the report
				i := 0
				for i < len(got) && i < len(want) && got[i] == want[i] {
					i++
				}
				lo := i - 40
				if lo < 0 {
					lo = 0
				}
				hiG, hiW := i+60, i+60
				if hiG > len(got) {
					hiG = len(got)
				}
				if hiW > len(want) {
					hiW = len(want)
				}
				c.Violate("R20.1", key, w.Pos(fd.Pos()), fmt.Sprintf("differs from the template under its substitution: generated has …%s… where the template gives …%s… (a fix to one of them was not propagated: this list pages differently from the others)", got[lo:hiG], want[lo:hiW]))
			} else {
				c.Hold("R20.1", key, w.Pos(fd.Pos()), "equals the template under "+m[2])
			}
		}
		conFns = append(conFns, "NameCon")
	}
	sort.Strings(conFns)
	for _, name := range conFns {
		fn := w.Func("api/graphql/connections", name)
		if fn == nil {
			c.Undecided("R20.2", "anchor:"+name, "api/graphql/connections", "no SSA function")
			continue
		}
		c.seeFn(funcName(fn))
		checkPaginationShape(c, fn, name)
	}
	checkCursorFns(c)
	checkSourcesOrdered(c)
}

// derefOfInputField: v is *input.<field> (load of the pointer stored in field of the ConnectionInput parameter)
func derefOfInputField(v ssa.Value, field string) bool {
	u, ok := v.(*ssa.UnOp)
	if !ok || u.Op != token.MUL {
		return false
	}
	return hasField(u.X, field)
}

func mentionsInputField(v ssa.Value, field string, depth int) bool {
	if depth > 4 {
		return false
	}
	if derefOfInputField(v, field) {
		return true
	}
	if bo, ok := v.(*ssa.BinOp); ok {
		return mentionsInputField(bo.X, field, depth+1) || mentionsInputField(bo.Y, field, depth+1)
	}
	return false
}

func checkPaginationShape(c *Ctx, fn *ssa.Function, name string) {
	w := c.W
	for _, field := range []string{"First", "Last"} {
		// the negative guard
		var neg *CmpGuard
		for _, g := range cmpGuards(fn, nil) {
			gg, ok := g.oriented(func(v ssa.Value) bool { return derefOfInputField(v, field) })
			if !ok {
				continue
			}
			k, isK := constInt(gg.Y)
			if isK && ((gg.Op == token.LSS && k == 0) || (gg.Op == token.LEQ && k == -1)) {
				g2 := gg
				neg = &g2
			}
		}
		key := name + ":" + strings.ToLower(field)
		if neg == nil {
			c.Violate("R20.2", key+":negative-rejected", w.FnPos(fn), "a negative '"+strings.ToLower(field)+"' is not rejected with an error before it is used as a slice bound (index out of range panic)")
			continue
		}
		cont := neg.If.Block().Succs[1-errEdge(neg.If, defaultFail)]
		nSlices := 0
		okSlices := true
		detail := ""
		var sliceBlocks []*ssa.BasicBlock
		for _, b := range fn.Blocks {
			for _, ins := range b.Instrs {
				sl, ok := ins.(*ssa.Slice)
				if !ok {
					continue
				}
				uses := (sl.High != nil && mentionsInputField(sl.High, field, 0)) || (sl.Low != nil && mentionsInputField(sl.Low, field, 0))
				if !uses {
					continue
				}
				nSlices++
				c.Sites++
				sliceBlocks = append(sliceBlocks, b)
				if !cont.Dominates(b) {
					okSlices, detail = false, "a slice bounded by "+field+" at "+w.InstrPos(sl)+" is reachable without the negative-size test"
				}
				// len(edges) > n
				okLen := false
				for _, cc := range controlConds(b, nil) {
					bo, isBo := cc.If.Cond.(*ssa.BinOp)
					if !isBo {
						continue
					}
					x, y, op := bo.X, bo.Y, bo.Op
					if derefOfInputField(x, field) {
						x, y, op = y, x, swapOp(op)
					}
					if !derefOfInputField(y, field) {
						continue
					}
					if cc.Edge == 1 {
						op = negateOp(op)
					}
					if lc, isCall := x.(*ssa.Call); isCall {
						if bi, isB := lc.Common().Value.(*ssa.Builtin); isB && bi.Name() == "len" && (op == token.GTR || op == token.GEQ) {
							okLen = true
						}
					}
				}
				if !okLen {
					okSlices, detail = false, "a slice bounded by "+field+" at "+w.InstrPos(sl)+" is not guarded by len(...) > "+field+" (slice bounds out of range when the page is larger than the list)"
				}
			}
		}
		if nSlices < 3 {
			okSlices, detail = false, fmt.Sprintf("only %d slices bounded by %s found (edges, cursors and nodes must all be truncated)", nSlices, field)
		}
		c.Check(okSlices, "R20.2", key+":slices-guarded", w.InstrPos(neg.Bin), fmt.Sprintf("%d truncations, all after the negative test and under len > %s", nSlices, field), detail)
		// R20.3 flag in the truncating block
		wantFlag := map[string]string{"First": "HasNextPage", "Last": "HasPreviousPage"}[field]
		okFlag := false
		for _, b := range sliceBlocks {
			for _, ins := range b.Instrs {
				if st, isSt := ins.(*ssa.Store); isSt {
					if fa, isFA := st.Addr.(*ssa.FieldAddr); isFA && fieldName(fa) == wantFlag {
						if k, isK := st.Val.(*ssa.Const); isK && k.Value != nil && k.Value.String() == "true" {
							okFlag = true
						}
					}
				}
			}
		}
		c.Check(okFlag, "R20.3", key+":flag", w.FnPos(fn), "truncating by "+field+" sets "+wantFlag, "truncating by "+field+" does not set "+wantFlag+": the client stops paging although more elements exist")
	}
	// after / before flags
	for _, t := range []struct{ field, flag string }{{"After", "HasPreviousPage"}, {"Before", "HasNextPage"}} {
		ok := false
		for _, b := range fn.Blocks {
			for _, ins := range b.Instrs {
				st, isSt := ins.(*ssa.Store)
				if !isSt {
					continue
				}
				fa, isFA := st.Addr.(*ssa.FieldAddr)
				if !isFA || fieldName(fa) != t.flag {
					continue
				}
				// control dependent on cursor == *input.<field>
				for _, cc := range controlConds(b, nil) {
					if bo, isBo := cc.If.Cond.(*ssa.BinOp); isBo && bo.Op == token.EQL && cc.Edge == 0 {
						if derefOfInputField(bo.X, t.field) || derefOfInputField(bo.Y, t.field) {
							ok = true
						}
					}
				}
			}
		}
		c.Sites++
		c.Check(ok, "R20.3", name+":"+strings.ToLower(t.field)+":flag", w.FnPos(fn), "cutting at the '"+strings.ToLower(t.field)+"' cursor sets "+t.flag, "cutting at the '"+strings.ToLower(t.field)+"' cursor does not set "+t.flag)
	}
	// cursors
	okStart, okEnd := false, false
	for _, b := range fn.Blocks {
		for _, ins := range b.Instrs {
			st, isSt := ins.(*ssa.Store)
			if !isSt {
				continue
			}
			fa, isFA := st.Addr.(*ssa.FieldAddr)
			if !isFA {
				continue
			}
			u, isU := st.Val.(*ssa.UnOp)
			if !isU {
				continue
			}
			ia, isIA := u.X.(*ssa.IndexAddr)
			if !isIA {
				continue
			}
			guarded := false
			if k, isK := constInt(ia.Index); isK && k == 0 {
				guarded = lenGuarded(ia, ia.X, 0)
				if fieldName(fa) == "StartCursor" && guarded {
					okStart = true
				}
			} else if bo, isBo := ia.Index.(*ssa.BinOp); isBo && bo.Op == token.SUB {
				if k, isK := constInt(bo.Y); isK && k == 1 {
					if lc, isCall := bo.X.(*ssa.Call); isCall {
						if bi, isB := lc.Common().Value.(*ssa.Builtin); isB && bi.Name() == "len" && sameSlice(lc.Common().Args[0], ia.X) && lenGuarded(ia, ia.X, 0) {
							if fieldName(fa) == "EndCursor" {
								okEnd = true
							}
						}
					}
				}
			}
		}
	}
	c.Sites += 2
	c.Check(okStart, "R20.3", name+":start-cursor", w.FnPos(fn), "StartCursor = cursors[0] under len > 0", "StartCursor is not cursors[0] guarded by len(cursors) > 0")
	c.Check(okEnd, "R20.3", name+":end-cursor", w.FnPos(fn), "EndCursor = cursors[len-1] under len > 0", "EndCursor is not cursors[len(cursors)-1] guarded by len(cursors) > 0")
	// totalCount = len(source parameter) passed to the final conMaker call
	okTotal := false
	for _, cl := range Calls(fn) {
		if cl.Name != "" {
			continue
		}
		if p, isP := cl.Instr.Common().Value.(*ssa.Parameter); !isP || !strings.Contains(p.Name(), "conMaker") {
			continue
		}
		args := cl.Instr.Common().Args
		if len(args) != 4 {
			continue
		}
		if k, isK := constInt(args[3]); isK && k == 0 {
			continue // the empty connection built for error returns
		}
		if lc, isCall := args[3].(*ssa.Call); isCall {
			if bi, isB := lc.Common().Value.(*ssa.Builtin); isB && bi.Name() == "len" {
				if _, isParam := lc.Common().Args[0].(*ssa.Parameter); isParam {
					okTotal = true
				}
			}
		}
	}
	c.Sites++
	c.Check(okTotal, "R20.3", name+":total-count", w.FnPos(fn), "totalCount = len(source) as passed in", "totalCount is not the length of the original source (it would change with the window)")
}

func checkCursorFns(c *Ctx) {
	w := c.W
	c2o := w.Func("api/graphql/connections", "CursorToOffset")
	o2c := w.Func("api/graphql/connections", "OffsetToCursor")
	if c2o == nil || o2c == nil {
		c.Undecided("R20.4", "anchor:cursor-functions", "api/graphql/connections", "not found")
		return
	}
	c.seeFn(funcName(c2o))
	// Atoi error → error
	ok := false
	for _, cl := range CallsNamed(c2o, "strconv.Atoi") {
		if errorPropagatedLoose(cl.Value()) {
			ok = true
		}
	}
	c.Check(ok, "R20.4", "CursorToOffset:invalid-is-error", w.FnPos(c2o), "an undecodable cursor is an error", "an undecodable cursor does not produce an error")
	prefix, _ := pkgConstString(w, "api/graphql/connections", "cursorPrefix")
	uses := func(fn *ssa.Function) bool {
		for _, b := range fn.Blocks {
			for _, ins := range b.Instrs {
				for _, op := range ins.Operands(nil) {
					if op == nil || *op == nil {
						continue
					}
					if s, isS := constString(stripConv(*op)); isS && s == prefix {
						return true
					}
					if mi, isMI := (*op).(*ssa.MakeInterface); isMI {
						if s, isS := constString(mi.X); isS && s == prefix {
							return true
						}
					}
				}
			}
		}
		return false
	}
	c.Check(prefix != "" && uses(c2o) && uses(o2c), "R20.4", "cursor-prefix-shared", w.FnPos(o2c), "both directions use cursorPrefix", "OffsetToCursor and CursorToOffset do not use the same prefix constant")
}

// errorPropagatedLoose: the error result is tested and the non-nil edge returns a non-nil error (possibly a fresh one).
func errorPropagatedLoose(v ssa.Value) bool {
	for _, ev := range errValues(v) {
		nn, _ := nilTests(ev)
		for _, b := range nn {
			if errorDirected(b.Block(), defaultFail, 0) {
				return true
			}
		}
	}
	return false
}

// mapOrdered: fn returns a slice that carries the iteration order of a map, unsorted.
func mapOrdered(w *World, fn *ssa.Function, depth int, seen map[*ssa.Function]bool) (bool, string) {
	fn = bodyOf(fn)
	if fn == nil || seen[fn] || depth > 3 || len(fn.Blocks) == 0 {
		return false, ""
	}
	seen[fn] = true
	hasSort := false
	for _, cl := range Calls(fn) {
		if strings.HasPrefix(cl.Name, "sort.") || strings.HasPrefix(cl.Name, "slices.Sort") {
			hasSort = true
		}
	}
	for _, r := range Returns(fn) {
		if len(r.Results) == 0 {
			continue
		}
		res := ReturnResult(r, 0)
		if _, isSlice := res.Type().Underlying().(*types.Slice); !isSlice {
			continue
		}
		// values stored into the returned slice
		vals := sliceElementValues(res)
		if phi, ok := res.(*ssa.Phi); ok {
			for _, e := range phi.Edges {
				vals = append(vals, sliceElementValues(e)...)
			}
		}
		for _, v := range vals {
			for _, o := range origins(v) {
				if fromMapRange(o.Val) || fromMapRange(v) {
					if !hasSort {
						return true, funcName(fn) + " fills its result from a range over a map and does not sort it"
					}
				}
				if o.Kind == "call" {
					if cv, ok := o.Val.(*ssa.Call); ok {
						if recv := (&Call{Instr: cv}).Recv(); recv != nil && fromMapRange(recv) && !hasSort {
							return true, funcName(fn) + " fills its result from a range over a map and does not sort it"
						}
					}
				}
			}
		}
		// returns another function's result unchanged
		for _, o := range origins(res) {
			if o.Kind != "call" {
				continue
			}
			cv := o.Val.(*ssa.Call)
			var callees []*ssa.Function
			if f := cv.Common().StaticCallee(); f != nil {
				callees = []*ssa.Function{f}
			} else {
				callees = w.SiteCallees(cv)
			}
			for _, callee := range callees {
				if w.inModule(callee) && !hasSort {
					if mo, why := mapOrdered(w, callee, depth+1, seen); mo {
						return true, why
					}
				}
			}
		}
	}
	return false, ""
}

func fromMapRange(v ssa.Value) bool {
	if v == nil {
		return false
	}
	switch x := v.(type) {
	case *ssa.Extract:
		if nx, ok := x.Tuple.(*ssa.Next); ok {
			if r, ok := nx.Iter.(*ssa.Range); ok {
				_, isMap := r.X.Type().Underlying().(*types.Map)
				return isMap
			}
		}
	case *ssa.Call:
		if r := (&Call{Instr: x}).Recv(); r != nil {
			return fromMapRange(r)
		}
	case *ssa.MakeInterface:
		return fromMapRange(x.X)
	}
	return false
}

func checkSourcesOrdered(c *Ctx) {
	w := c.W
	n := 0
	for _, fn := range w.ModFns {
		if isInstance(fn) || fnPkgPath(fn) != modPath+"/api/graphql/resolvers" {
			continue
		}
		for _, cl := range Calls(fn) {
			if !strings.HasPrefix(cl.Name, "api/graphql/connections.") || !strings.HasSuffix(cl.Name, "Con") {
				continue
			}
			n++
			c.Sites++
			c.seeFn(funcName(fn))
			src := cl.Args()[0]
			key := funcName(fn) + ":source-ordered"
			// sorted in this function before the call?
			sortedHere := false
			for _, sc := range Calls(fn) {
				if (sc.Name == "sort.Slice" || sc.Name == "sort.SliceStable" || sc.Name == "sort.Sort" || sc.Name == "sort.Strings") && instrDominates(sc.Instr, cl.Instr) {
					a := stripConv(sc.Args()[0])
					if a == src || sameSlice(a, src) {
						sortedHere = true
					}
				}
			}
			if sortedHere {
				c.Hold("R20.5", key, w.InstrPos(cl.Instr), "sorted in the resolver before pagination")
				continue
			}
			bad := ""
			for _, o := range origins(src) {
				if o.Kind != "call" {
					continue
				}
				cv := o.Val.(*ssa.Call)
				var callees []*ssa.Function
				if f := cv.Common().StaticCallee(); f != nil {
					callees = []*ssa.Function{f}
				} else {
					callees = w.SiteCallees(cv)
				}
				for _, callee := range callees {
					if !w.inModule(callee) {
						continue
					}
					if mo, why := mapOrdered(w, callee, 0, map[*ssa.Function]bool{}); mo {
						bad = why
					}
				}
			}
			c.Check(bad == "", "R20.5", key, w.InstrPos(cl.Instr), "source is not an unsorted map walk", "the list being paginated has no stable order from one request to the next ("+bad+"): offset cursors of one page mean nothing for the next, elements are skipped and repeated")
		}
	}
	if n < 6 {
		c.Violate("R20.5", "expected:pagination-calls", "api/graphql/resolvers", fmt.Sprintf("%d pagination calls found (reference 8)", n))
	}
}
