package main

import (
	"bytes"
	"fmt"
	"go/ast"
	"go/printer"
	"go/token"
	"go/types"
	"regexp"
	"sort"
	"strings"

	"golang.org/x/tools/go/ssa"
)

func init() {
	register("C20",
		"The window arithmetic of pagination is a value statement and is not computed. Decided are its structural necessary conditions: (R20.1) each generated connection function is the template under the substitution of its go:generate line (one algorithm, seven lists); on the template and every copy: (R20.2) every slice bounded by *input.First / *input.Last is dominated by the continuing edge of the '< 0 → error' test and by the 'len(edges) > n' test; (R20.3) the branch dropping a suffix sets HasNextPage and the one dropping a prefix sets HasPreviousPage, start/end cursors are cursors[0] / cursors[len-1] under len > 0, totalCount is the length of the source as passed in; (R20.4) an undecodable cursor is an error and both cursor functions use the same prefix; (R20.5) the source handed to every pagination call has a stable order: it is not the result of an unsorted walk over a map.",
		[]string{"genny generated the copies by textual substitution (checked, not assumed)", "exactly-once traversal over all sizes and cursor positions is not computed"},
		runC20)
}

var genLine = regexp.MustCompile(`-out=(\S+)\s+gen\s+"([^"]+)"`)

func runC20(c *Ctx) {
	w := c.W
	c.Doc("R20.1", "every go:generate line of connections.go has its generated pagination function; a copy that differs textually from connection_template.go's NameCon under its substitution is noted for information (a harmless hand edit must not alarm) — the template and every copy are each decided by R20.2–R20.6")
	c.Doc("R20.2", "slices bounded by *input.First / *input.Last are dominated by the non-negative edge of the '< 0 → error' test and by len(edges) > n")
	c.Doc("R20.3", "suffix truncation sets HasNextPage, prefix truncation sets HasPreviousPage; StartCursor/EndCursor are cursors[0]/cursors[len-1] under len>0; totalCount = len(source parameter)")
	c.Doc("R20.4", "CursorToOffset fails on undecodable input; OffsetToCursor and CursorToOffset share the cursor prefix constant")
	c.Doc("R20.6", "every edge maker call receives a node of the list scanned and that node's position in the list as passed in (loop index, plus the number of elements cut off the front when a suffix is scanned: the companion phi of the list phi holds exactly the low bound of each cut); the after-cut is source[j+1:] for the matched position j; in the before-scan nothing is collected before the comparison or after a match, and a match leaves the loop")
	c.Doc("R20.5", "the source of every connections.*Con call is not an unsorted map walk")
	checkArrayIndexBounds(c)
	checkConnectionInputWiring(c, "R20.10")
	// the source of allBugs is sorted by a consistent comparator (shared with C12)
	checkSorters(c)
	p := w.Pkg("api/graphql/connections")
	if p == nil {
		c.Undecided("R20.1", "anchor:api/graphql/connections", "api/graphql/connections", "package not found")
		return
	}
	// template body
	var tmplDecl *ast.FuncDecl
	decls := map[string]*ast.FuncDecl{}
	var genLines []string
	for _, f := range p.Syntax {
		for _, cg := range f.Comments {
			for _, cm := range cg.List {
				if strings.HasPrefix(cm.Text, "//go:generate genny") {
					genLines = append(genLines, cm.Text)
				}
			}
		}
		for _, d := range f.Decls {
			if fd, ok := d.(*ast.FuncDecl); ok && fd.Recv == nil && strings.HasSuffix(fd.Name.Name, "Con") {
				decls[fd.Name.Name] = fd
				if fd.Name.Name == "NameCon" {
					tmplDecl = fd
				}
			}
		}
	}
	printBody := func(fd *ast.FuncDecl) string {
		var buf bytes.Buffer
		// print without comments: a fresh fileset-less printing of the node drops free-floating comments
		cfg := printer.Config{Mode: printer.RawFormat}
		_ = cfg.Fprint(&buf, token.NewFileSet(), fd.Body)
		return strings.Join(strings.Fields(buf.String()), " ")
	}
	var conFns []string
	if tmplDecl == nil {
		c.Undecided("R20.1", "anchor:connection_template.NameCon", "api/graphql/connections", "template function not found")
	} else {
		tmpl := printBody(tmplDecl)
		if len(genLines) < 5 {
			c.Violate("R20.1", "expected:go-generate-lines", "api/graphql/connections/connections.go", fmt.Sprintf("%d go:generate genny lines found (reference 7)", len(genLines)))
		}
		for _, gl := range genLines {
			m := genLine.FindStringSubmatch(gl)
			if m == nil {
				continue
			}
			sub := map[string]string{}
			for _, kv := range strings.Fields(m[2]) {
				if i := strings.IndexByte(kv, '='); i > 0 {
					sub[kv[:i]] = kv[i+1:]
				}
			}
			name := sub["Name"]
			fd := decls[name+"Con"]
			c.Sites++
			key := name + "Con"
			if fd == nil {
				c.Violate("R20.1", key, "api/graphql/connections/"+m[1], "the generated pagination function "+name+"Con does not exist")
				continue
			}
			conFns = append(conFns, name+"Con")
			want := tmpl
			for _, g := range []string{"NodeType", "EdgeType", "ConnectionType"} {
				val := sub[g]
				// inside package connections the generated code refers to its own types unqualified
				want = regexp.MustCompile(`\b`+g+`\b`).ReplaceAllString(want, val)
			}
			want = regexp.MustCompile(`\bName([A-Z]\w*)`).ReplaceAllString(want, name+"$1")
			got := printBody(fd)
			if got != want {
				// locate the first difference for the report
				i := 0
				for i < len(got) && i < len(want) && got[i] == want[i] {
					i++
				}
				lo := i - 40
				if lo < 0 {
					lo = 0
				}
				hiG, hiW := i+60, i+60
				if hiG > len(got) {
					hiG = len(got)
				}
				if hiW > len(want) {
					hiW = len(want)
				}
				// a textual difference is not a verdict: the copy may have been edited in a behaviour-preserving way.
				// Every copy is decided on its own by R20.2–R20.6 below; the difference is reported for information.
				c.Info("R20.1", key, w.Pos(fd.Pos()), fmt.Sprintf("differs textually from the template under its substitution (…%s… vs …%s…); the copy is checked on its own by R20.2–R20.6", got[lo:hiG], want[lo:hiW]))
			} else {
				c.Hold("R20.1", key, w.Pos(fd.Pos()), "equals the template under "+m[2])
			}
		}
		conFns = append(conFns, "NameCon")
	}
	sort.Strings(conFns)
	for _, name := range conFns {
		fn := w.Func("api/graphql/connections", name)
		if fn == nil {
			c.Undecided("R20.2", "anchor:"+name, "api/graphql/connections", "no SSA function")
			continue
		}
		c.seeFn(funcName(fn))
		checkPaginationShape(c, fn, name)
		checkIndexDiscipline(c, fn, name)
		checkConExits(c, fn, name)
	}
	checkCursorFns(c)
	checkSourcesOrdered(c)
	checkEdgeAndConMakers(c)
}

// derefOfInputField: v is *input.<field> (load of the pointer stored in field of the ConnectionInput parameter)
func derefOfInputField(v ssa.Value, field string) bool {
	u, ok := v.(*ssa.UnOp)
	if !ok || u.Op != token.MUL {
		return false
	}
	return hasField(u.X, field)
}

func mentionsInputField(v ssa.Value, field string, depth int) bool {
	if depth > 4 {
		return false
	}
	if derefOfInputField(v, field) {
		return true
	}
	if bo, ok := v.(*ssa.BinOp); ok {
		return mentionsInputField(bo.X, field, depth+1) || mentionsInputField(bo.Y, field, depth+1)
	}
	return false
}

func checkPaginationShape(c *Ctx, fn *ssa.Function, name string) {
	w := c.W
	for _, field := range []string{"First", "Last"} {
		// the negative guard
		var neg *CmpGuard
		for _, g := range cmpGuards(fn, nil) {
			gg, ok := g.oriented(func(v ssa.Value) bool { return derefOfInputField(v, field) })
			if !ok {
				continue
			}
			k, isK := constInt(gg.Y)
			if isK && ((gg.Op == token.LSS && k == 0) || (gg.Op == token.LEQ && k == -1)) {
				g2 := gg
				neg = &g2
			}
		}
		key := name + ":" + strings.ToLower(field)
		if neg == nil {
			c.Violate("R20.2", key+":negative-rejected", w.FnPos(fn), "a negative '"+strings.ToLower(field)+"' is not rejected with an error before it is used as a slice bound (index out of range panic)")
			continue
		}
		contEdge := 1 - errEdge(neg.If, defaultFail)
		nSlices := 0
		okSlices := true
		detail := ""
		var sliceBlocks []*ssa.BasicBlock
		for _, b := range fn.Blocks {
			for _, ins := range b.Instrs {
				sl, ok := ins.(*ssa.Slice)
				if !ok {
					continue
				}
				uses := (sl.High != nil && mentionsInputField(sl.High, field, 0)) || (sl.Low != nil && mentionsInputField(sl.Low, field, 0))
				if !uses {
					continue
				}
				nSlices++
				c.Sites++
				sliceBlocks = append(sliceBlocks, b)
				if !edgeDominates(neg.If.Block(), contEdge, b) {
					okSlices, detail = false, "a slice bounded by "+field+" at "+w.InstrPos(sl)+" is reachable without the negative-size test"
				}
				// len(edges) > n
				okLen, weakLen := false, false
				for _, cc := range controlConds(b, nil) {
					bo, isBo := cc.If.Cond.(*ssa.BinOp)
					if !isBo {
						continue
					}
					x, y, op := bo.X, bo.Y, bo.Op
					if derefOfInputField(x, field) {
						x, y, op = y, x, swapOp(op)
					}
					if !derefOfInputField(y, field) {
						continue
					}
					if cc.Edge == 1 {
						op = negateOp(op)
					}
					if lc, isCall := x.(*ssa.Call); isCall {
						if bi, isB := lc.Common().Value.(*ssa.Builtin); isB && bi.Name() == "len" {
							if op == token.GTR {
								okLen = true
							} else if op == token.GEQ {
								weakLen = true
							}
						}
					}
				}
				if !okLen && weakLen {
					okSlices, detail = false, "the truncation at "+w.InstrPos(sl)+" also happens when exactly "+field+" elements remain: nothing is cut but the has-more flag is set, the client pages into an empty page"
				} else if !okLen {
					okSlices, detail = false, "a slice bounded by "+field+" at "+w.InstrPos(sl)+" is not guarded by len(...) > "+field+" (slice bounds out of range when the page is larger than the list)"
				}
				// exact form: x[:first] / x[len(x)-last:]
				if field == "First" && !(sl.Low == nil && sl.High != nil && derefOfInputField(sl.High, field)) {
					okSlices, detail = false, "the truncation at "+w.InstrPos(sl)+" is not x[:first]"
				}
				if field == "Last" {
					okForm := false
					if lo, isBo := sl.Low.(*ssa.BinOp); isBo && sl.High == nil && lo.Op == token.SUB && derefOfInputField(lo.Y, field) {
						if lc, isCall := lo.X.(*ssa.Call); isCall {
							if bi, isB := lc.Common().Value.(*ssa.Builtin); isB && bi.Name() == "len" && lc.Common().Args[0] == sl.X {
								okForm = true
							}
						}
					}
					if !okForm {
						okSlices, detail = false, "the truncation at "+w.InstrPos(sl)+" is not x[len(x)-last:]"
					}
				}
			}
		}
		if nSlices < 3 {
			okSlices, detail = false, fmt.Sprintf("only %d slices bounded by %s found (edges, cursors and nodes must all be truncated)", nSlices, field)
		}
		c.Check(okSlices, "R20.2", key+":slices-guarded", w.InstrPos(neg.Bin), fmt.Sprintf("%d truncations, all after the negative test and under len > %s", nSlices, field), detail)
		// R20.3 flag in the truncating block
		wantFlag := map[string]string{"First": "HasNextPage", "Last": "HasPreviousPage"}[field]
		okFlag := false
		for _, b := range sliceBlocks {
			for _, ins := range b.Instrs {
				if st, isSt := ins.(*ssa.Store); isSt {
					if fa, isFA := st.Addr.(*ssa.FieldAddr); isFA && fieldName(fa) == wantFlag {
						if k, isK := st.Val.(*ssa.Const); isK && k.Value != nil && k.Value.String() == "true" {
							okFlag = true
						}
					}
				}
			}
		}
		c.Check(okFlag, "R20.3", key+":flag", w.FnPos(fn), "truncating by "+field+" sets "+wantFlag, "truncating by "+field+" does not set "+wantFlag+": the client stops paging although more elements exist")
	}
	// after / before flags
	for _, t := range []struct{ field, flag string }{{"After", "HasPreviousPage"}, {"Before", "HasNextPage"}} {
		ok := false
		for _, b := range fn.Blocks {
			for _, ins := range b.Instrs {
				st, isSt := ins.(*ssa.Store)
				if !isSt {
					continue
				}
				fa, isFA := st.Addr.(*ssa.FieldAddr)
				if !isFA || fieldName(fa) != t.flag {
					continue
				}
				// control dependent on cursor == *input.<field>
				for _, cc := range controlConds(b, nil) {
					if bo, isBo := cc.If.Cond.(*ssa.BinOp); isBo && bo.Op == token.EQL && cc.Edge == 0 {
						if derefOfInputField(bo.X, t.field) || derefOfInputField(bo.Y, t.field) {
							ok = true
						}
					}
				}
			}
		}
		c.Sites++
		c.Check(ok, "R20.3", name+":"+strings.ToLower(t.field)+":flag", w.FnPos(fn), "cutting at the '"+strings.ToLower(t.field)+"' cursor sets "+t.flag, "cutting at the '"+strings.ToLower(t.field)+"' cursor does not set "+t.flag)
	}
	// cursors
	okStart, okEnd := false, false
	for _, b := range fn.Blocks {
		for _, ins := range b.Instrs {
			st, isSt := ins.(*ssa.Store)
			if !isSt {
				continue
			}
			fa, isFA := st.Addr.(*ssa.FieldAddr)
			if !isFA {
				continue
			}
			u, isU := st.Val.(*ssa.UnOp)
			if !isU {
				continue
			}
			ia, isIA := u.X.(*ssa.IndexAddr)
			if !isIA {
				continue
			}
			guarded := false
			if k, isK := constInt(ia.Index); isK && k == 0 {
				guarded = lenGuarded(ia, ia.X, 0)
				if fieldName(fa) == "StartCursor" && guarded {
					okStart = true
				}
			} else if bo, isBo := ia.Index.(*ssa.BinOp); isBo && bo.Op == token.SUB {
				if k, isK := constInt(bo.Y); isK && k == 1 {
					if lc, isCall := bo.X.(*ssa.Call); isCall {
						if bi, isB := lc.Common().Value.(*ssa.Builtin); isB && bi.Name() == "len" && sameSlice(lc.Common().Args[0], ia.X) && lenGuarded(ia, ia.X, 0) {
							if fieldName(fa) == "EndCursor" {
								okEnd = true
							}
						}
					}
				}
			}
		}
	}
	c.Sites += 2
	c.Check(okStart, "R20.3", name+":start-cursor", w.FnPos(fn), "StartCursor = cursors[0] under len > 0", "StartCursor is not cursors[0] guarded by len(cursors) > 0")
	c.Check(okEnd, "R20.3", name+":end-cursor", w.FnPos(fn), "EndCursor = cursors[len-1] under len > 0", "EndCursor is not cursors[len(cursors)-1] guarded by len(cursors) > 0")
	// totalCount = len(source parameter) passed to the final conMaker call
	okTotal := false
	for _, cl := range Calls(fn) {
		if cl.Name != "" {
			continue
		}
		if p, isP := cl.Instr.Common().Value.(*ssa.Parameter); !isP || !strings.Contains(p.Name(), "conMaker") {
			continue
		}
		args := cl.Instr.Common().Args
		if len(args) != 4 {
			continue
		}
		if k, isK := constInt(args[3]); isK && k == 0 {
			continue // the empty connection built for error returns
		}
		if lc, isCall := args[3].(*ssa.Call); isCall {
			if bi, isB := lc.Common().Value.(*ssa.Builtin); isB && bi.Name() == "len" {
				if _, isParam := lc.Common().Args[0].(*ssa.Parameter); isParam {
					okTotal = true
				}
			}
		}
	}
	c.Sites++
	c.Check(okTotal, "R20.3", name+":total-count", w.FnPos(fn), "totalCount = len(source) as passed in", "totalCount is not the length of the original source (it would change with the window)")
}

func checkCursorFns(c *Ctx) {
	w := c.W
	c2o := w.Func("api/graphql/connections", "CursorToOffset")
	o2c := w.Func("api/graphql/connections", "OffsetToCursor")
	if c2o == nil || o2c == nil {
		c.Undecided("R20.4", "anchor:cursor-functions", "api/graphql/connections", "not found")
		return
	}
	c.seeFn(funcName(c2o))
	// Atoi error → error
	ok := false
	for _, cl := range CallsNamed(c2o, "strconv.Atoi") {
		if errorPropagatedLoose(cl.Value()) {
			ok = true
		}
	}
	c.Check(ok, "R20.4", "CursorToOffset:invalid-is-error", w.FnPos(c2o), "an undecodable cursor is an error", "an undecodable cursor does not produce an error")
	prefix, _ := pkgConstString(w, "api/graphql/connections", "cursorPrefix")
	uses := func(fn0 *ssa.Function) bool {
		for _, fn := range fnAndHelpers(fn0, 2) {
			for _, b := range fn.Blocks {
				for _, ins := range b.Instrs {
					for _, op := range ins.Operands(nil) {
						if op == nil || *op == nil {
							continue
						}
						if s, isS := constString(stripConv(*op)); isS && s == prefix {
							return true
						}
						if mi, isMI := (*op).(*ssa.MakeInterface); isMI {
							if s, isS := constString(mi.X); isS && s == prefix {
								return true
							}
						}
					}
				}
			}
		}
		return false
	}
	c.Check(prefix != "" && uses(c2o) && uses(o2c), "R20.4", "cursor-prefix-shared", w.FnPos(o2c), "both directions use cursorPrefix", "OffsetToCursor and CursorToOffset do not use the same prefix constant")
}

// errorPropagatedLoose: the error result is tested and the non-nil edge returns a non-nil error (possibly a fresh one).
func errorPropagatedLoose(v ssa.Value) bool {
	for _, ev := range errValues(v) {
		nn, _ := nilTests(ev)
		for _, b := range nn {
			if errorDirected(b.Block(), defaultFail, 0) {
				return true
			}
		}
	}
	return false
}

// mapOrdered: fn returns a slice that carries the iteration order of a map, unsorted.
func mapOrdered(w *World, fn *ssa.Function, depth int, seen map[*ssa.Function]bool) (bool, string) {
	fn = bodyOf(fn)
	if fn == nil || seen[fn] || depth > 3 || len(fn.Blocks) == 0 {
		return false, ""
	}
	seen[fn] = true
	hasSort := false
	weakSort := ""
	for _, cl := range Calls(fn) {
		if strings.HasPrefix(cl.Name, "sort.") || strings.HasPrefix(cl.Name, "slices.Sort") {
			hasSort = true
			if why := lessNotTotal(cl); why != "" {
				hasSort, weakSort = false, why
			}
		}
	}
	for _, r := range Returns(fn) {
		if len(r.Results) == 0 {
			continue
		}
		res := ReturnResult(r, 0)
		if _, isSlice := res.Type().Underlying().(*types.Slice); !isSlice {
			continue
		}
		// values stored into the returned slice
		vals := sliceElementValues(res)
		if phi, ok := res.(*ssa.Phi); ok {
			for _, e := range phi.Edges {
				vals = append(vals, sliceElementValues(e)...)
			}
		}
		for _, v := range vals {
			for _, o := range origins(v) {
				if fromMapRange(o.Val) || fromMapRange(v) {
					if !hasSort {
						if weakSort != "" {
							return true, funcName(fn) + " fills its result from a range over a map and sorts it with a comparison that does not order all distinct elements (" + weakSort + "): elements that compare equal keep the map's order, which changes from one request to the next"
						}
						return true, funcName(fn) + " fills its result from a range over a map and does not sort it"
					}
				}
				if o.Kind == "call" {
					if cv, ok := o.Val.(*ssa.Call); ok {
						if recv := (&Call{Instr: cv}).Recv(); recv != nil && fromMapRange(recv) && !hasSort {
							return true, funcName(fn) + " fills its result from a range over a map and does not sort it"
						}
					}
				}
			}
		}
		// returns another function's result unchanged
		for _, o := range origins(res) {
			if o.Kind != "call" {
				continue
			}
			cv := o.Val.(*ssa.Call)
			var callees []*ssa.Function
			if f := cv.Common().StaticCallee(); f != nil {
				callees = []*ssa.Function{f}
			} else {
				callees = w.SiteCallees(cv)
			}
			for _, callee := range callees {
				if w.inModule(callee) && !hasSort {
					if mo, why := mapOrdered(w, callee, depth+1, seen); mo {
						return true, why
					}
				}
			}
		}
	}
	return false, ""
}

func fromMapRange(v ssa.Value) bool {
	if v == nil {
		return false
	}
	switch x := v.(type) {
	case *ssa.Extract:
		if nx, ok := x.Tuple.(*ssa.Next); ok {
			if r, ok := nx.Iter.(*ssa.Range); ok {
				_, isMap := r.X.Type().Underlying().(*types.Map)
				return isMap
			}
		}
	case *ssa.Call:
		if r := (&Call{Instr: x}).Recv(); r != nil {
			return fromMapRange(r)
		}
	case *ssa.MakeInterface:
		return fromMapRange(x.X)
	}
	return false
}

func checkSourcesOrdered(c *Ctx) {
	w := c.W
	n := 0
	for _, fn := range w.ModFns {
		if isInstance(fn) || fnPkgPath(fn) != modPath+"/api/graphql/resolvers" {
			continue
		}
		for _, cl := range Calls(fn) {
			if !strings.HasPrefix(cl.Name, "api/graphql/connections.") || !strings.HasSuffix(cl.Name, "Con") {
				continue
			}
			n++
			c.Sites++
			c.seeFn(funcName(fn))
			src := cl.Args()[0]
			key := funcName(fn) + ":source-ordered"
			// sorted in this function before the call?
			sortedHere := false
			for _, sc := range Calls(fn) {
				if (sc.Name == "sort.Slice" || sc.Name == "sort.SliceStable" || sc.Name == "sort.Sort" || sc.Name == "sort.Strings") && instrDominates(sc.Instr, cl.Instr) {
					a := stripConv(sc.Args()[0])
					if (a == src || sameSlice(a, src)) && lessNotTotal(sc) == "" {
						sortedHere = true
					}
				}
			}
			// or sorted by a same-package helper that sorts the slice it is handed
			if at, sorted, less, _ := findSliceSort(fn); !sortedHere && at != nil && sorted != nil && less != nil && instrDominates(at, cl.Instr) {
				if sorted == src || sameSlice(sorted, src) {
					total := true
					for _, r := range Returns(less) {
						if bo, isBo := r.Results[0].(*ssa.BinOp); isBo {
							for _, side := range []ssa.Value{bo.X, bo.Y} {
								if cv, isCall := stripConv(side).(*ssa.Call); isCall {
									if n, _ := callName(cv.Common()); !strings.HasSuffix(n, ".Id") && !strings.HasSuffix(n, ".String") {
										total = false
									}
								}
							}
						}
					}
					sortedHere = total
				}
			}
			if sortedHere {
				c.Hold("R20.5", key, w.InstrPos(cl.Instr), "sorted in the resolver before pagination")
				continue
			}
			bad := ""
			for _, o := range origins(src) {
				if o.Kind != "call" {
					continue
				}
				cv := o.Val.(*ssa.Call)
				var callees []*ssa.Function
				if f := cv.Common().StaticCallee(); f != nil {
					callees = []*ssa.Function{f}
				} else {
					callees = w.SiteCallees(cv)
				}
				for _, callee := range callees {
					if !w.inModule(callee) {
						continue
					}
					if mo, why := mapOrdered(w, callee, 0, map[*ssa.Function]bool{}); mo {
						bad = why
					}
				}
			}
			c.Check(bad == "", "R20.5", key, w.InstrPos(cl.Instr), "source is not an unsorted map walk", "the list being paginated has no stable order from one request to the next ("+bad+"): offset cursors of one page mean nothing for the next, elements are skipped and repeated")
		}
	}
	if n < 6 {
		c.Violate("R20.5", "expected:pagination-calls", "api/graphql/resolvers", fmt.Sprintf("%d pagination calls found (reference 8)", n))
	}
}

// sameExpr: structural equality of small integer expressions (go/ssa performs no CSE: i+1
// written twice is two instructions).
func sameExpr(a, b ssa.Value, depth int) bool {
	if a == b {
		return true
	}
	if depth > 3 {
		return false
	}
	if ka, ok := constInt(a); ok {
		kb, ok2 := constInt(b)
		return ok2 && ka == kb
	}
	ba, ok1 := a.(*ssa.BinOp)
	bb, ok2 := b.(*ssa.BinOp)
	if ok1 && ok2 && ba.Op == bb.Op {
		if sameExpr(ba.X, bb.X, depth+1) && sameExpr(ba.Y, bb.Y, depth+1) {
			return true
		}
		if (ba.Op == token.ADD || ba.Op == token.MUL) && sameExpr(ba.X, bb.Y, depth+1) && sameExpr(ba.Y, bb.X, depth+1) {
			return true
		}
	}
	return false
}

// checkIndexDiscipline (R20.6): offsets handed to the edge maker are positions in the list as
// passed in, whatever window was cut before; the after-cut starts right behind the matched
// element; elements are collected in the before-scan only while the cursor has not matched.
func checkIndexDiscipline(c *Ctx, fn *ssa.Function, name string) {
	w := c.W
	var srcParam, maker *ssa.Parameter
	for _, p := range fn.Params {
		if _, isSl := p.Type().Underlying().(*types.Slice); isSl && srcParam == nil {
			srcParam = p
		}
		if sg, isSig := p.Type().Underlying().(*types.Signature); isSig && sg.Params().Len() == 2 && sg.Results().Len() == 1 && maker == nil {
			maker = p
		}
	}
	if srcParam == nil || maker == nil {
		c.Undecided("R20.6", name+":edge-offsets", w.FnPos(fn), "source / edge maker parameters not recognised")
		return
	}
	// base(S): S is the source as passed in (base 0), or a phi of it and source[low:] whose
	// companion phi (same block, same incoming edges) holds 0 / low.
	baseOK := func(S ssa.Value, B ssa.Value) (bool, string) {
		if S == ssa.Value(srcParam) {
			if B == nil {
				return true, ""
			}
			if k, isK := constInt(B); isK && k == 0 {
				return true, ""
			}
			return false, "an offset is added to positions of the uncut list"
		}
		sp, isPhi := S.(*ssa.Phi)
		if !isPhi {
			return false, "the list scanned is not the source or a suffix of it"
		}
		bp, isPhiB := B.(*ssa.Phi)
		if B == nil {
			return false, "the position within the cut list is used as the offset: after an 'after' cursor the cursors handed out are those of other elements"
		}
		if !isPhiB || bp.Block() != sp.Block() || len(bp.Edges) != len(sp.Edges) {
			return false, "the offset added does not follow the cut of the list"
		}
		for i, se := range sp.Edges {
			be := bp.Edges[i]
			if se == ssa.Value(srcParam) {
				if k, isK := constInt(be); !isK || k != 0 {
					return false, "offset is not 0 where the list is uncut"
				}
				continue
			}
			sl, isSl := se.(*ssa.Slice)
			if !isSl || sl.X != ssa.Value(srcParam) || sl.High != nil || sl.Low == nil {
				return false, "the list scanned is not a suffix of the source"
			}
			if !sameExpr(sl.Low, be, 0) {
				return false, "the offset differs from the number of elements cut off the front (" + w.InstrPos(sl) + ")"
			}
		}
		return true, ""
	}
	nCalls, okAll, why := 0, true, ""
	var pos string
	for _, b := range fn.Blocks {
		for _, ins := range b.Instrs {
			cl, isCall := ins.(*ssa.Call)
			if !isCall || cl.Common().Value != ssa.Value(maker) || len(cl.Common().Args) != 2 {
				continue
			}
			nCalls++
			c.Sites++
			pos = w.InstrPos(cl)
			ld, isLd := cl.Common().Args[0].(*ssa.UnOp)
			var ia *ssa.IndexAddr
			if isLd {
				ia, _ = ld.X.(*ssa.IndexAddr)
			}
			if ia == nil {
				okAll, why = false, "the node handed to the edge maker at "+pos+" is not an element of the list scanned"
				continue
			}
			idx := cl.Common().Args[1]
			var B ssa.Value
			if idx != ia.Index {
				bo, isBo := idx.(*ssa.BinOp)
				switch {
				case isBo && bo.Op == token.ADD && bo.X == ia.Index:
					B = bo.Y
				case isBo && bo.Op == token.ADD && bo.Y == ia.Index:
					B = bo.X
				default:
					okAll, why = false, "the offset handed to the edge maker at "+pos+" is not the position of the node"
					continue
				}
			}
			if ok, reason := baseOK(ia.X, B); !ok {
				okAll, why = false, "at "+pos+": "+reason
			}
		}
	}
	if nCalls < 3 {
		okAll, why = false, fmt.Sprintf("%d edge maker calls found (reference 3: after-scan, before-scan, plain scan)", nCalls)
	}
	c.Check(okAll, "R20.6", name+":edge-offsets", w.FnPos(fn), fmt.Sprintf("%d edge maker calls, each with the node's position in the list as passed in", nCalls), why)

	// after-cut: source[j+1:] under cursor == *input.After, j the position of the matched node
	okAfter, whyAfter := false, "no cut of the source under the 'after' cursor match"
	for _, b := range fn.Blocks {
		for _, ins := range b.Instrs {
			sl, isSl := ins.(*ssa.Slice)
			if !isSl || sl.X != ssa.Value(srcParam) {
				continue
			}
			for _, cc := range controlConds(b, nil) {
				bo, isBo := cc.If.Cond.(*ssa.BinOp)
				if !isBo || bo.Op != token.EQL || cc.Edge != 0 || !(derefOfInputField(bo.X, "After") || derefOfInputField(bo.Y, "After")) {
					continue
				}
				// j: the index of the edge maker call whose cursor is compared
				var j ssa.Value
				for _, side := range []ssa.Value{bo.X, bo.Y} {
					if gc, isC := side.(*ssa.Call); isC && gc.Common().IsInvoke() {
						if mk, isMk := gc.Common().Value.(*ssa.Call); isMk && mk.Common().Value == ssa.Value(maker) {
							j = mk.Common().Args[1]
						}
					}
				}
				low, isBo2 := sl.Low.(*ssa.BinOp)
				if j != nil && sl.High == nil && isBo2 && low.Op == token.ADD {
					k, isK := constInt(low.Y)
					if low.X == j && isK && k == 1 {
						// and the cut happens whenever the cursor matches: no other condition inside the scan
						extra := ""
						if hdr := enclosingLoopHeader(cc.If.Block()); hdr != nil {
							for _, c2 := range controlConds(b, hdr.Idom()) {
								if c2.If != cc.If && !isLoopHeader(c2.If.Block()) {
									extra = w.InstrPos(c2.If)
								}
							}
						}
						if extra != "" {
							whyAfter = "the cut at the 'after' cursor is additionally conditional on " + extra + ": for some cursor positions (e.g. the last element) the cursor is ignored and the whole list is returned again"
							continue
						}
						okAfter = true
						continue
					}
				}
				whyAfter = "the window after the cursor at " + w.InstrPos(sl) + " does not start right behind the matched element (the element is repeated or one is skipped)"
			}
		}
	}
	c.Check(okAfter, "R20.6", name+":after-window", w.FnPos(fn), "the window starts right behind the element the 'after' cursor designates", whyAfter)

	// before-scan: collection only on the not-matched edge, match leaves the loop
	okBefore, whyBefore := false, "no scan for the 'before' cursor found"
	for _, b := range fn.Blocks {
		if len(b.Instrs) == 0 {
			continue
		}
		iff, isIf := b.Instrs[len(b.Instrs)-1].(*ssa.If)
		if !isIf {
			continue
		}
		bo, isBo := iff.Cond.(*ssa.BinOp)
		if !isBo || bo.Op != token.EQL || !(derefOfInputField(bo.X, "Before") || derefOfInputField(bo.Y, "Before")) {
			continue
		}
		h := enclosingLoopHeader(b)
		if h == nil {
			whyBefore = "the 'before' comparison is not made while scanning"
			continue
		}
		matched, rest := b.Succs[0], b.Succs[1]
		nApp := 0
		for _, x := range fn.Blocks {
			if !inLoop(x, h) {
				continue
			}
			for _, ins := range x.Instrs {
				if cl, isCall := ins.(*ssa.Call); isCall {
					if bi, isB := cl.Common().Value.(*ssa.Builtin); isB && bi.Name() == "append" {
						nApp++
						if !(rest == x || rest.Dominates(x)) {
							whyBefore = "an element is collected at " + w.InstrPos(cl) + " before the 'before' cursor was compared, or although it matched: the page contains elements outside the window"
							nApp = -100
						}
					}
				}
			}
		}
		if inLoop(matched, h) {
			whyBefore = "the scan goes on after the 'before' cursor matched"
			continue
		}
		if nApp >= 3 {
			okBefore = true
		} else if nApp >= 0 {
			whyBefore = fmt.Sprintf("%d of the 3 lists (edges, cursors, nodes) are filled in the before-scan", nApp)
		}
	}
	c.Check(okBefore, "R20.6", name+":before-window", w.FnPos(fn), "elements are collected until the 'before' cursor matches, which ends the scan", whyBefore)
}

// closureFn: the function behind a func-typed argument (closure, named function, conversions).
func closureFn(v ssa.Value) *ssa.Function {
	for i := 0; i < 6; i++ {
		switch x := v.(type) {
		case *ssa.ChangeType:
			v = x.X
		case *ssa.MakeClosure:
			f, _ := x.Fn.(*ssa.Function)
			return f
		case *ssa.Function:
			return x
		default:
			return nil
		}
	}
	return nil
}

// storedToField: the values stored into field `name` of any struct in fn.
func storedToField(fn *ssa.Function, name string) []*ssa.Store {
	var out []*ssa.Store
	for _, b := range fn.Blocks {
		for _, ins := range b.Instrs {
			if st, ok := ins.(*ssa.Store); ok {
				if fa, ok := st.Addr.(*ssa.FieldAddr); ok && fieldName(fa) == name {
					out = append(out, st)
				}
			}
		}
	}
	return out
}

// checkEdgeAndConMakers (R20.7): what the resolvers plug into the pagination functions.
func checkEdgeAndConMakers(c *Ctx) {
	w := c.W
	c.Doc("R20.7", "every edge maker handed to a pagination function builds the edge of the node it is given with Cursor = OffsetToCursor(the offset it is given); every connection maker passes the page info and the total count through unchanged and, when it rebuilds the edges, copies the cursor of the edge at the same position")
	n := 0
	for _, fn := range w.ModFns {
		if isInstance(fn) || fnPkgPath(fn) != modPath+"/api/graphql/resolvers" {
			continue
		}
		for _, cl := range Calls(fn) {
			if !strings.HasPrefix(cl.Name, "api/graphql/connections.") || !strings.HasSuffix(cl.Name, "Con") {
				continue
			}
			n++
			args := cl.Args()
			key := funcName(fn)
			pos := w.InstrPos(cl.Instr)
			em, cm := closureFn(args[1]), closureFn(args[2])
			if em == nil || cm == nil || len(em.Params) != 2 || len(cm.Params) != 4 {
				c.Undecided("R20.7", key+":edge-maker", pos, "edge maker / connection maker is not a function literal or named function that can be inspected")
				continue
			}
			c.Sites += 2
			okCursor, okNode := false, false
			for _, st := range storedToField(em, "Cursor") {
				if cv, isCall := st.Val.(*ssa.Call); isCall {
					if nm, _ := callName(cv.Common()); nm == "api/graphql/connections.OffsetToCursor" && len(cv.Common().Args) == 1 && cv.Common().Args[0] == ssa.Value(em.Params[1]) {
						okCursor = true
					}
				}
			}
			for _, f := range []string{"Node", "Id"} {
				for _, st := range storedToField(em, f) {
					for _, o := range origins(st.Val) {
						if o.Kind == "param" && o.Val == ssa.Value(em.Params[0]) {
							okNode = true
						}
					}
				}
			}
			c.Check(okCursor, "R20.7", key+":edge-cursor", w.FnPos(em), "Cursor = OffsetToCursor(offset)", "the edge maker does not derive the cursor from the offset it is given: the cursors a client sends back do not designate the elements they were attached to")
			c.Check(okNode, "R20.7", key+":edge-node", w.FnPos(em), "the edge carries the node it was made for", "the edge maker does not put the node it is given into the edge")
			// the nodes of the connection are those of the page handed in (the nodes or edges parameter), never a captured list
			{
				badNodes := ""
				nNodes := 0
				for _, st := range storedToField(cm, "Nodes") {
					nNodes++
					fromParam, fromFree := false, ""
					var vals []ssa.Value
					vals = append(vals, st.Val)
					vals = append(vals, sliceElementValues(st.Val)...)
					vals = append(vals, appendedValues(st.Val)...)
					for _, v := range vals {
						for k := range feedTokens(v) {
							if strings.HasPrefix(k, "param:") {
								fromParam = true
							}
						}
						for _, o := range origins(v) {
							if o.Kind == "param" {
								fromParam = true
							}
						}
						// &x[i]: the list indexed
						if ia, isIA := v.(*ssa.IndexAddr); isIA {
							for _, o := range origins(ia.X) {
								switch o.Kind {
								case "param":
									fromParam = true
								case "freevar":
									fromFree = o.Name
								}
							}
						}
						// &c of a loop variable: what is stored into it
						if al, isAl := v.(*ssa.Alloc); isAl {
							for _, r := range *al.Referrers() {
								if s2, isSt := r.(*ssa.Store); isSt && s2.Addr == ssa.Value(al) {
									for _, o := range origins(s2.Val) {
										switch o.Kind {
										case "param":
											fromParam = true
										case "freevar":
											fromFree = o.Name
										}
									}
								}
							}
						}
					}
					if fromFree != "" {
						badNodes = "the nodes are taken from the captured variable " + fromFree
					} else if !fromParam {
						badNodes = "the nodes do not come from the page handed to the connection maker"
					}
				}
				if nNodes > 0 {
					c.Check(badNodes == "", "R20.7", key+":nodes-of-the-page", w.FnPos(cm), "nodes built from the page handed in", badNodes+": edges, cursors and page info describe the requested window while 'nodes' lists other elements (always the head of the list)")
				}
			}
			okInfo, okTotal, okEdges := false, false, false
			for _, st := range storedToField(cm, "PageInfo") {
				if st.Val == ssa.Value(cm.Params[2]) {
					okInfo = true
				}
			}
			for _, st := range storedToField(cm, "TotalCount") {
				if st.Val == ssa.Value(cm.Params[3]) {
					okTotal = true
				}
			}
			whyEdges := "the connection returned does not carry the edges of the page"
			for _, st := range storedToField(cm, "Edges") {
				if st.Val == ssa.Value(cm.Params[0]) {
					okEdges = true
					continue
				}
				// rebuilt: out[i] = &Edge{Cursor: in[i].Cursor, ...} for the ranged i, out made with len(in)
				mk, isMk := st.Val.(*ssa.MakeSlice)
				if !isMk {
					continue
				}
				if lc, isCall := mk.Len.(*ssa.Call); !isCall || len(lc.Common().Args) != 1 || lc.Common().Args[0] != ssa.Value(cm.Params[0]) {
					whyEdges = "the rebuilt edge list does not have the length of the page"
					continue
				}
				for _, cst := range storedToField(cm, "Cursor") {
					ld, isLd := cst.Val.(*ssa.UnOp)
					if !isLd {
						continue
					}
					fa, isFA := ld.X.(*ssa.FieldAddr)
					if !isFA || fieldName(fa) != "Cursor" {
						continue
					}
					eld, isELd := fa.X.(*ssa.UnOp)
					if !isELd {
						continue
					}
					src, isIA := eld.X.(*ssa.IndexAddr)
					if !isIA || src.X != ssa.Value(cm.Params[0]) {
						continue
					}
					// where does the new edge go?
					newEdge := cst.Addr.(*ssa.FieldAddr).X
					for _, r := range *newEdge.Referrers() {
						if est, isSt := r.(*ssa.Store); isSt && est.Val == newEdge {
							if dst, isDst := est.Addr.(*ssa.IndexAddr); isDst && dst.X == ssa.Value(mk) {
								if dst.Index == src.Index {
									okEdges = true
								} else {
									whyEdges = "the rebuilt edge at one position carries the cursor of the edge at another"
								}
							}
						}
					}
				}
			}
			c.Check(okInfo, "R20.7", key+":page-info-passed", w.FnPos(cm), "PageInfo is the one computed by the pagination function", "the connection maker does not pass on the page info it is given")
			c.Check(okTotal, "R20.7", key+":total-count-passed", w.FnPos(cm), "TotalCount is the count it is given", "the connection maker does not pass on the total count it is given")
			c.Check(okEdges, "R20.7", key+":edges-passed", w.FnPos(cm), "edges are those of the page (passed through, or rebuilt position by position with the same cursors)", whyEdges)
		}
	}
	if n < 6 {
		c.Violate("R20.7", "expected:pagination-calls", "api/graphql/resolvers", fmt.Sprintf("%d pagination calls found (reference 8)", n))
	}
}

// lessNotTotal: for sort.Slice / sort.SliceStable with a less closure, a reason why the closure may
// leave distinct elements unordered (it compares values derived from the elements through a call
// that need not be injective); "" when the elements themselves (or conversions of them) are compared.
func lessNotTotal(cl *Call) string {
	if cl.Name != "sort.Slice" && cl.Name != "sort.SliceStable" {
		return ""
	}
	args := cl.Args()
	if len(args) != 2 {
		return ""
	}
	less := closureFn(args[1])
	if less == nil {
		return ""
	}
	for _, r := range Returns(less) {
		bo, ok := r.Results[0].(*ssa.BinOp)
		if !ok {
			continue
		}
		for _, side := range []ssa.Value{bo.X, bo.Y} {
			v := stripConv(side)
			if cv, isCall := v.(*ssa.Call); isCall {
				n, _ := callName(cv.Common())
				if strings.HasSuffix(n, ".Id") || strings.HasSuffix(n, ".String") {
					continue // identifying accessors
				}
				return "it compares " + n + "(element)"
			}
		}
	}
	return ""
}

// R20.8: indexing a fixed-size array with a computed index is dominated by tests that bound the index to
// [0, N-1]. (A table of precomputed cursors looked up with `offset <= len(table)` panics at offset N for
// every list that long.)
func checkArrayIndexBounds(c *Ctx) {
	w := c.W
	c.Doc("R20.8", "in api/graphql: every access arr[i] to a fixed-size array with a non-constant index is control dependent on comparisons of i with constants that imply 0 <= i <= len(arr)-1 (ranges over the array itself are exempt)")
	n := 0
	for _, f := range w.ModFns {
		if isInstance(f) || w.isTestHelper(f) || !strings.HasPrefix(fnPkgPath(f), modPath+"/api/graphql") {
			continue
		}
		for _, b := range f.Blocks {
			for _, ins := range b.Instrs {
				ia, ok := ins.(*ssa.IndexAddr)
				if !ok {
					continue
				}
				t := ia.X.Type()
				if p, isP := t.Underlying().(*types.Pointer); isP {
					t = p.Elem()
				}
				arr, isArr := t.Underlying().(*types.Array)
				if !isArr {
					continue
				}
				if _, isK := constInt(ia.Index); isK {
					continue
				}
				// range over the array: index is the loop phi bounded by len
				if ph, isPhi := ia.Index.(*ssa.Phi); isPhi && isLoopHeader(ph.Block()) {
					continue
				}
				if bo, isBo := ia.Index.(*ssa.BinOp); isBo && bo.Op == token.ADD {
					if ph, isPhi := bo.X.(*ssa.Phi); isPhi && isLoopHeader(ph.Block()) {
						continue
					}
				}
				n++
				c.Sites++
				c.seeFn(funcName(f))
				hi, lo := int64(1<<62), int64(-1<<62)
				for _, cc := range controlConds(b, nil) {
					bo, isBo := cc.If.Cond.(*ssa.BinOp)
					if !isBo || !isCmpOp(bo.Op) {
						continue
					}
					op, x, y := bo.Op, bo.X, bo.Y
					if y == ia.Index || stripConv(y) == stripConv(ia.Index) {
						op, x, y = swapOp(op), y, x
					}
					if !(x == ia.Index || stripConv(x) == stripConv(ia.Index)) {
						continue
					}
					k, isK := constInt(y)
					if !isK {
						continue
					}
					if cc.Edge == 1 {
						op = negateOp(op)
					}
					switch op {
					case token.LSS:
						hi = minI(hi, k-1)
					case token.LEQ:
						hi = minI(hi, k)
					case token.GTR:
						lo = maxI(lo, k+1)
					case token.GEQ:
						lo = maxI(lo, k)
					case token.EQL:
						hi, lo = minI(hi, k), maxI(lo, k)
					}
				}
				c.Check(lo >= 0 && hi <= arr.Len()-1, "R20.8", funcName(f)+":array-index", w.InstrPos(ia), fmt.Sprintf("index bounded to [%d,%d] within an array of %d", lo, hi, arr.Len()),
					fmt.Sprintf("the index into an array of %d elements is only known to lie in [%d,%d]: an access one past the end panics for every list long enough to reach it", arr.Len(), lo, hi))
			}
		}
	}
	c.Info("R20.8", "array-index-sites", "api/graphql", fmt.Sprintf("%d computed accesses to fixed-size arrays", n))
}


// R20.9: every page is answered by the connection maker, and the two truncations are independent.
func checkConExits(c *Ctx, fn *ssa.Function, name string) {
	w := c.W
	c.Doc("R20.9", "in every pagination function each return without error hands back the result of the connection maker (total count and page info are never replaced by an empty connection for some page size); the 'last' truncation is tested on every path that passed the 'first' truncation (giving 'first' does not disable 'last')")
	// the conMaker parameter: the function-typed parameter whose result type is the function's first result
	var conMaker *ssa.Parameter
	for _, p := range fn.Params {
		if sig, ok := p.Type().Underlying().(*types.Signature); ok && sig.Results().Len() == 2 && fn.Signature.Results().Len() == 2 && types.Identical(sig.Results().At(0).Type(), fn.Signature.Results().At(0).Type()) {
			conMaker = p
		}
	}
	if conMaker == nil {
		c.Undecided("R20.9", name+":answers-through-the-connection-maker", w.FnPos(fn), "no connection maker parameter found")
		return
	}
	bad := ""
	n := 0
	for _, r := range Returns(fn) {
		if returnKind(r) == RetError {
			continue
		}
		n++
		c.Sites++
		ok := false
		for _, o := range origins(ReturnResult(r, 0)) {
			if cv, isCall := o.Val.(*ssa.Call); isCall && o.Kind == "call" && cv.Common().Value == ssa.Value(conMaker) {
				// … called for this page: with a computed total count (the empty connection used for error exits is made with the constant 0)
				if args := cv.Common().Args; len(args) > 0 {
					if _, isK := args[len(args)-1].(*ssa.Const); !isK {
						ok = true
					}
				}
			}
		}
		if !ok {
			bad = "the return at " + w.InstrPos(r) + " answers without calling the connection maker"
		}
	}
	c.Check(n > 0 && bad == "", "R20.9", name+":answers-through-the-connection-maker", w.FnPos(fn), fmt.Sprintf("%d success return(s), all results of the connection maker", n),
		bad+": for that request the total count is reported as 0 and both page flags as false although the list has elements")
	// first / last independent
	var firstIf, lastIf *ssa.If
	for _, b := range fn.Blocks {
		if len(b.Instrs) == 0 {
			continue
		}
		iff, ok := b.Instrs[len(b.Instrs)-1].(*ssa.If)
		if !ok {
			continue
		}
		bo, isBo := iff.Cond.(*ssa.BinOp)
		if !isBo || (bo.Op != token.NEQ && bo.Op != token.EQL) || !(isNilConst(bo.X) || isNilConst(bo.Y)) {
			continue
		}
		v := bo.X
		if isNilConst(v) {
			v = bo.Y
		}
		if hasField(v, "First") && firstIf == nil {
			firstIf = iff
		}
		if hasField(v, "Last") && lastIf == nil {
			lastIf = iff
		}
	}
	if firstIf == nil || lastIf == nil {
		c.Undecided("R20.9", name+":last-independent-of-first", w.FnPos(fn), "the nil tests of First and Last were not found")
		return
	}
	c.Sites++
	// the Last test is reachable after the First truncation was applied (from the 'First given' edge)
	given := 0
	if bo := firstIf.Cond.(*ssa.BinOp); bo.Op == token.EQL {
		given = 1
	}
	reach := reaches(firstIf.Block().Succs[given], lastIf.Block())
	c.Check(reach, "R20.9", name+":last-independent-of-first", w.InstrPos(lastIf), "'last' is tested whether or not 'first' was given",
		"when 'first' is given the 'last' argument is never looked at: a request carrying both returns elements outside the requested window and wrong page flags")
}
