package main

import (
	"fmt"
	"strings"

	"golang.org/x/tools/go/ssa"
)

func init() {
	register("C06",
		"Crash points cannot be enumerated statically; what is decided is the necessary shape of 'old or new, never a mixture': on every path of each write path (Entity.Commit, dag.merge, Identity.Commit, Identity.Merge) nothing is written — no object, no further ref, no clock increment — after the (single) ref update has succeeded, the ref is set to the commit produced by the last object write of that path (or to the remote head for a fast-forward), in merge the clock is incremented before the objects are written, and the clock file is replaced atomically.",
		[]string{"go-git writes loose objects and refs atomically (temp file + rename)", "actual crash states and re-running an interrupted action are not explored"},
		runC06)
}

func runC06(c *Ctx) {
	w := c.W
	eff := newEffects(w)
	checkActionsAtomic(c, eff)
	checkCrashLeftovers(c)
	// reopening after a crash: the stale-lock report must not block the open (shared with C19)
	checkNoSendBeforeHandover(c, "R19.9")
	// a cache file torn by a crash is noticed and rebuilt; a bug is published in git before the cache lists it (shared with C11)
	checkLoadAllOrRebuild(c, "R11.10")
	checkIndexReopen(c)
	c.Doc("R11.3", "RepoCacheBug.NewRaw / RepoCacheIdentity.finishIdentity commit the entity before it is registered in the cache")
	checkCreationRegisters(c)
	// the cache file follows every change of the excerpts (shared with C11)
	c.Doc("R11.1", "per SubCache function: excerpts store ⇒ index write; delete ⇒ Index.Remove; reset ⇒ Index.Clear; and SubCache.write() on every path to a non-error exit")
	checkExcerptIndexPairing(c)
	// what is read is witnessed, merge commits included: the next commit sorts after it (shared with C05)
	checkWitnessAll(c, "R5.3")
	// … whatever the clock files hold after a crash: the merge commit is dated after both branches were read (shared with C01)
	checkMergeCommitPack(c)
	checkBuildWritesOnce(c, "R6.10")
	checkMergeIndexesPerEntity(c, "R6.11")
	// "the repository opens again after a death": a dead lock owner is recognised as dead (shared with C19)
	checkWebUIAndIsRunning(c)
	c.Doc("R6.1", "after a successful ref-moving call no object write, ref update or clock increment is reachable inside the write path; the hash given to UpdateRef is the result of the last commit write of the path (or the resolved remote head)")
	c.Doc("R6.2", "in dag.merge the clock increment precedes the pack write, which precedes the ref update")
	c.Doc("R6.3", "PersistedClock.Write replaces the clock file atomically (write elsewhere, rename into place); it must not truncate and rewrite the live file")
	type wp struct {
		fn   *ssa.Function
		name string
	}
	var paths []wp
	add := func(f *ssa.Function, n string) {
		if f == nil {
			c.Undecided("R6.1", "anchor:"+n, "?", "write path not found")
			return
		}
		paths = append(paths, wp{f, n})
	}
	add(w.Method("entity/dag", "Entity", "Commit"), "dag.Entity.Commit")
	add(w.Func("entity/dag", "merge"), "dag.merge")
	add(w.Method("entities/identity", "Identity", "Commit"), "identity.Identity.Commit")
	add(w.Method("entities/identity", "Identity", "Merge"), "identity.Identity.Merge")
	for _, p := range paths {
		fn := p.fn
		c.seeFn(funcName(fn))
		refs := refSites(w, eff, fn)
		if len(refs) == 0 {
			c.Violate("R6.1", p.name+":expected:ref-update", w.FnPos(fn), "the write path no longer moves a ref")
			continue
		}
		// effect sites
		type es struct {
			call *Call
			eff  string
		}
		var sites []es
		for _, cl := range Calls(fn) {
			c.Sites++
			se := eff.SiteEffects(cl)
			var l []string
			for e := range se {
				cl := effClass(e)
				if cl == "OBJ" || cl == "REF" || e == "CLOCK:Increment" {
					l = append(l, e)
				}
			}
			if len(l) > 0 {
				sites = append(sites, es{cl, strings.Join(l, ",")})
			}
		}
		for i, r := range refs {
			key := fmt.Sprintf("%s:%s#%d", p.name, r.Call.Name, i)
			bad := ""
			for _, s := range sites {
				if s.call.Instr == r.Call.Instr {
					// a ref update inside a loop reaching itself
					if ok, pth := reachesFrom(fn, r, s.call.Instr, false); ok {
						bad = "the ref update can run again after it succeeded (inside a loop): intermediate states become visible — " + blocksString(w, pth)
					}
					continue
				}
				if ok, pth := reachesFrom(fn, r, s.call.Instr, false); ok {
					bad = fmt.Sprintf("%s (%s) at %s is reachable after the ref was moved: %s", s.call.Name, s.eff, w.InstrPos(s.call.Instr), blocksString(w, pth))
					break
				}
			}
			c.Check(bad == "", "R6.1", key+":last", w.InstrPos(r.Call.Instr), "nothing is written after the ref update", bad)
			// hash provenance
			if r.Direct && strings.HasSuffix(r.Call.Name, ".UpdateRef") {
				h := r.Call.Args()[1]
				ok, why := refHashOK(fn, h, r.Call.Instr, 0)
				c.Check(ok, "R6.1", key+":points-at-written-commit", w.InstrPos(r.Call.Instr), why, why)
			}
		}
	}
	// R6.2
	if mf := w.Func("entity/dag", "merge"); mf != nil {
		var inc, wr, upd ssa.Instruction
		for al, wcall := range writtenPacks(mf) {
			wr = wcall.Instr
			for _, st := range storedFieldValues(mf, al, "EditTime") {
				if ic := incrementOrigin(mf, st.Val, 0); ic != nil {
					inc = ic
				}
			}
			for _, cl := range Calls(mf) {
				if strings.HasSuffix(cl.Name, ".UpdateRef") {
					if wc := hasOriginCall(cl.Args()[1], "entity/dag.operationPack.Write", 0); wc != nil && wc == wcall.Value() {
						upd = cl.Instr
					}
				}
			}
		}
		ok := inc != nil && wr != nil && upd != nil && instrDominates(inc, wr) && dominatedBySuccess(wr.(ssa.Value), upd)
		c.Check(ok, "R6.2", "dag.merge:clock-objects-ref", w.FnPos(mf), "Increment → Write → UpdateRef(result of Write)", "the merge commit path is not ordered clock increment → object writes → ref update")
	}
	// the clocks stay at or above every stored time: persistence and rebuild rules shared with C05
	checkMemClock(c)
	checkClockRebuild(c)
	// R6.3
	pw := w.Method("util/lamport", "PersistedClock", "Write")
	if pw == nil {
		c.Undecided("R6.3", "anchor:PersistedClock.Write", "util/lamport", "not found")
		return
	}
	c.seeFn(funcName(pw))
	rename, inplace := false, ""
	for _, cl := range Calls(pw) {
		c.Sites++
		if strings.HasSuffix(cl.Name, ".Rename") {
			rename = true
		}
		if strings.HasSuffix(cl.Name, "util.WriteFile") || strings.HasSuffix(cl.Name, ".Create") || strings.HasSuffix(cl.Name, ".OpenFile") || cl.Name == "os.WriteFile" {
			// does it write the live path (field filePath) directly?
			for _, a := range cl.Args() {
				if hasField(a, "filePath") && len(originFields(a)) == 1 {
					if _, isBin := a.(*ssa.BinOp); !isBin {
						inplace = cl.Name + " at " + w.InstrPos(cl.Instr)
					}
				}
			}
		}
	}
	c.Check(rename && inplace == "", "R6.3", "PersistedClock.Write:atomic-replace", w.FnPos(pw), "written to a temporary file and renamed into place",
		"the clock file is truncated and rewritten in place ("+inplace+"): a crash in between leaves an empty or shortened number, which either fails every later open (a parse error is not treated as a missing clock, so the loaders are not run for it) or parses as a smaller time")
}

// refHashOK: the hash passed to UpdateRef originates from the last commit written on the path
// (result of Write / StoreCommit / StoreSignedCommit, possibly through a field of the receiver or a
// loop-carried local), or from ResolveRef of the remote ref (fast forward).
func refHashOK(fn *ssa.Function, h ssa.Value, at ssa.Instruction, depth int) (bool, string) {
	good := func(n string) bool {
		return n == "entity/dag.operationPack.Write" || strings.HasSuffix(n, ".StoreCommit") || strings.HasSuffix(n, ".StoreSignedCommit")
	}
	var any bool
	for _, o := range origins(h) {
		switch {
		case o.Kind == "call" && good(o.Name):
			any = true
		case o.Kind == "call" && strings.HasSuffix(o.Name, ".ResolveRef"):
			rc := o.Val.(*ssa.Call)
			if refSide(rc.Common().Args[0]) != "remote" {
				return false, "the ref is set to a hash resolved from the local side"
			}
			any = true
		case o.Kind == "const":
			// initial value of a loop-carried variable ("" before the first write)
		case o.Kind == "field" && depth < 2:
			// field of the receiver assigned earlier in the function (e.lastCommit, v.commitHash)
			okF := false
			for _, b := range fn.Blocks {
				for _, ins := range b.Instrs {
					st, ok := ins.(*ssa.Store)
					if !ok {
						continue
					}
					fa, ok := st.Addr.(*ssa.FieldAddr)
					if !ok || fieldName(fa) != o.Name {
						continue
					}
					if ok2, _ := refHashOK(fn, st.Val, at, depth+1); ok2 {
						okF = true
					}
				}
			}
			if okF || o.Name == "commitHash" || o.Name == "lastCommit" {
				any = true
			} else {
				return false, "the ref is set to field ." + o.Name + ", which is not assigned from a commit write in this function"
			}
		case o.Kind == "call" && depth < 2 && samePkgHelper(fn, o.Val) != nil:
			// result of a same-package helper: what the helper returns must itself be a written commit
			h := samePkgHelper(fn, o.Val)
			for _, r := range Returns(h) {
				if returnKind(r) == RetError || o.Idx >= len(r.Results) {
					continue
				}
				if ok2, why2 := refHashOK(h, ReturnResult(r, o.Idx), at, depth+1); !ok2 {
					return false, why2
				}
				any = true
			}
		default:
			return false, "the ref is set to a hash of unexpected origin (" + o.String() + ")"
		}
	}
	if !any {
		return false, "the hash given to UpdateRef does not originate from a commit written (or resolved) on this path"
	}
	return true, "ref ← commit written last on this path (or remote head)"
}

// R6.4: one user-level action of the API publishes once. R6.5: a pull always merges.
func checkActionsAtomic(c *Ctx, eff *effSummaries) {
	w := c.W
	c.Doc("R6.4", "every GraphQL mutation resolver moves entity refs at most once on any path (one user-level action = one commit = one ref update): no ref-moving call site is reachable from another one, so a crash cannot leave half of an action published")
	c.Doc("R6.5", "every function that fetches and merges (the Pull functions of cache, entity/dag, entities/identity, and the pull command) reaches MergeAll on every path from a successful fetch to a success return: repeating an interrupted pull completes it even when there is nothing left to download")
	n := 0
	for _, rm := range w.resolverMethods() {
		if rm.Iface != "MutationResolver" || rm.Fn == nil {
			continue
		}
		n++
		c.seeFn(funcName(rm.Fn))
		var sites []*Call
		for _, cl := range Calls(rm.Fn) {
			c.Sites++
			for e := range eff.SiteEffects(cl) {
				if effClass(e) == "REF" {
					sites = append(sites, cl)
					break
				}
			}
		}
		key := "Mutation." + rm.Method + ":publishes-once"
		bad := ""
		for _, a := range sites {
			isOther := func(i ssa.Instruction) bool {
				for _, b := range sites {
					if b.Instr == i {
						return true
					}
				}
				return false
			}
			if found, _, at := pathAvoiding(rm.Fn, a.Instr, isOther, nil); found {
				bad = fmt.Sprintf("after the ref update through %s at %s another one is reachable at %s: the action is published in two steps, a crash (or an error) between them leaves a state that is neither the old nor the new one, and repeating the action repeats its first half", a.Name, w.InstrPos(a.Instr), w.InstrPos(at))
				break
			}
		}
		if len(sites) == 0 {
			c.Info("R6.4", key, w.FnPos(rm.Fn), "moves no entity ref")
			continue
		}
		c.Check(bad == "", "R6.4", key, w.FnPos(rm.Fn), fmt.Sprintf("%d ref-moving site(s), none reachable from another", len(sites)), bad)
	}
	if n == 0 {
		c.Violate("R6.4", "expected:MutationResolver-methods", "api/graphql/resolvers", "no mutation resolver found")
	}
	// R6.5
	nPull := 0
	for _, fn := range w.ModFns {
		if isInstance(fn) || len(fn.Blocks) == 0 || w.isTestHelper(fn) || fn.Parent() != nil || fnPkgPath(fn) == modPath+"/repository" {
			continue
		}
		isMerge := func(i ssa.Instruction) bool {
			ci, ok := i.(ssa.CallInstruction)
			if !ok {
				return false
			}
			nn, _ := callName(ci.Common())
			return strings.HasSuffix(nn, ".MergeAll") || strings.HasSuffix(nn, "MergeAll")
		}
		// a pull: a function that fetches and merges
		var fetch *Call
		merges, delegates := false, false
		for _, cl := range Calls(fn) {
			switch {
			case strings.HasSuffix(cl.Name, ".Fetch") || strings.HasSuffix(cl.Name, ".FetchRefs") || cl.Name == "entity/dag.Fetch" || cl.Name == "entities/identity.Fetch" || cl.Name == "entities/bug.Fetch":
				fetch = cl
			case isMerge(cl.Instr):
				merges = true
			case strings.HasSuffix(cl.Name, ".Pull") || cl.Name == "entity/dag.Pull":
				delegates = true
			}
		}
		if fn.Name() == "Pull" && fetch == nil && !delegates {
			// a Pull that neither fetches itself nor delegates: still must merge
			merges = true
		}
		if delegates || fetch == nil || !(merges || fn.Name() == "Pull") {
			continue
		}
		nPull++
		c.Sites++
		c.seeFn(funcName(fn))
		// from the success of the fetch, no success return without merging
		bad := false
		var p []*ssa.BasicBlock
		if fetch.Value() != nil && len(errValues(fetch.Value())) > 0 {
			for _, sb := range successBlocks(fetch.Value()) {
				if found, pp, _ := pathSearch(fn, nil, sb, isSuccessReturn, isMerge, false); found {
					bad, p = true, pp
				}
			}
		} else {
			bad, p, _ = pathAvoiding(fn, fetch.Instr, isSuccessReturn, isMerge)
		}
		// what is merged is what was fetched: the same remote
		{
			strArgs := func(ci ssa.CallInstruction) []ssa.Value {
				var out []ssa.Value
				for _, a := range ci.Common().Args {
					if isStringType(a.Type()) {
						out = append(out, a)
					}
				}
				return out
			}
			fa := strArgs(fetch.Instr)
			same := true
			what := ""
			nm := 0
			for _, cl := range Calls(fn) {
				if !isMerge(cl.Instr) {
					continue
				}
				for _, ma := range strArgs(cl.Instr) {
					nm++
					ok := false
					for _, x := range fa {
						if x == ma || sameExpr(x, ma, 0) {
							ok = true
						}
					}
					if !ok {
						same, what = false, cl.Name+" at "+w.InstrPos(cl.Instr)
					}
				}
			}
			if len(fa) > 0 && nm > 0 {
				c.Check(same, "R6.5", funcName(fn)+":merges-the-remote-fetched", w.FnPos(fn), "fetch and merge are given the same remote", "the remote handed to "+what+" is not the one that was fetched: the pull downloads from one remote and merges the tracking refs of another — the command succeeds while the fetched entities never arrive")
			}
		}
		c.Check(!bad, "R6.5", funcName(fn)+":always-merges", w.FnPos(fn), "every success return after the fetch passes MergeAll", "a success return is reachable after the fetch without merging what was fetched ("+blocksString(w, p)+"): a pull interrupted (or refused) after its fetch is not completed by pulling again — the command reports success while the fetched entities stay unmerged")
	}
	if nPull < 2 {
		c.Violate("R6.5", "expected:pull-functions", "module", fmt.Sprintf("%d Pull functions found (reference 3)", nPull))
	}
}

// samePkgHelper: the static callee of call value v when it is a function of fn's package with a body.
func samePkgHelper(fn *ssa.Function, v ssa.Value) *ssa.Function {
	cv, ok := v.(*ssa.Call)
	if !ok {
		return nil
	}
	callee := cv.Common().StaticCallee()
	if callee == nil || len(callee.Blocks) == 0 || callee == fn {
		return nil
	}
	pf := fn
	for pf.Parent() != nil {
		pf = pf.Parent()
	}
	if callee.Pkg == nil || (callee.Pkg != pf.Pkg && (pf.Origin() == nil || callee.Pkg != pf.Origin().Pkg)) {
		return nil
	}
	return callee
}

// R6.6–R6.8 (third round of seeded changes): what a crash can leave behind must be readable.
func checkCrashLeftovers(c *Ctx) {
	w := c.W
	c.Doc("R6.6", "every file PersistedClock creates lives at the clock's own path: GoGitRepo.AllClocks takes every entry of the clocks directory for a clock, so a temporary sibling (name.tmp) left by a crash would be loaded as a clock of its own — unless AllClocks filters the entry names")
	c.Doc("R6.7", "the lock file holds exactly what its reader parses: RepoCache.lock writes the decimal pid and nothing else when repoIsAvailable hands the bytes to strconv.Atoi untrimmed (a trailing newline would make every stale lock unparseable and the repository unusable after a crash)")
	c.Doc("R6.8", "each ref-moving method of GoGitRepo performs exactly one reference mutation of go-git: UpdateRef and CopyRef one SetReference, RemoveRef one RemoveReference — a ref update built from a removal followed by a set leaves no ref at all when interrupted in between")
	// R6.6
	filters := false
	if ac := w.Method("repository", "GoGitRepo", "AllClocks"); ac != nil {
		for _, cl := range Calls(ac) {
			if strings.HasPrefix(cl.Name, "strings.Has") || cl.Name == "path/filepath.Ext" || cl.Name == "strings.Contains" {
				filters = true
			}
		}
	}
	n := 0
	for _, fn := range w.ModFns {
		if fnPkgPath(fn) != modPath+"/util/lamport" || fn.Signature.Recv() == nil || !strings.Contains(typeShortName(fn.Signature.Recv().Type()), "PersistedClock") {
			continue
		}
		for _, cl := range Calls(fn) {
			e := primEffect(cl.Name)
			if effClass(e) != "FILE" || strings.HasSuffix(e, "Remove") || strings.HasSuffix(e, "RemoveAll") {
				continue
			}
			// the path argument: the first string-typed argument
			var path ssa.Value
			for _, a := range cl.Instr.Common().Args {
				if isStringType(a.Type()) {
					path = a
					break
				}
			}
			if path == nil {
				continue
			}
			n++
			c.Sites++
			c.seeFn(funcName(fn))
			ok := true
			var shapes []string
			for _, t := range templatesOf(path) {
				shapes = append(shapes, t.String())
				if !(t.Shape() == "‹›" && len(t.Holes()) == 1 && strings.Contains(t.Holes()[0], "filePath")) {
					ok = false
				}
			}
			if strings.HasSuffix(e, "Rename") {
				// the destination must be the clock's own path as well
				args := cl.Args()
				if len(args) >= 2 {
					for _, t := range templatesOf(args[len(args)-1]) {
						if !(t.Shape() == "‹›" && len(t.Holes()) == 1 && strings.Contains(t.Holes()[0], "filePath")) {
							ok = false
						}
					}
				}
			}
			c.Check(ok || filters, "R6.6", funcName(fn)+":"+e+":at-the-clock-path", w.InstrPos(cl.Instr), "writes the clock's own file", "a file "+strings.Join(shapes, " | ")+" is created next to the clock file, and GoGitRepo.AllClocks loads every entry of that directory as a clock: after a crash the leftover becomes a phantom clock that identity versions record and later miss ('version has less lamport clocks than before')")
		}
	}
	if n == 0 {
		c.Violate("R6.6", "expected:clock-file-writes", "util/lamport", "no file write found in PersistedClock")
	}
	checkLockContentParsable(c)
	// R6.8
	for _, m := range []struct{ name, mut string }{{"UpdateRef", "SetReference"}, {"CopyRef", "SetReference"}, {"RemoveRef", "RemoveReference"}} {
		fn := w.Method("repository", "GoGitRepo", m.name)
		if fn == nil {
			c.Undecided("R6.8", "anchor:GoGitRepo."+m.name, "repository", "not found")
			continue
		}
		c.seeFn(funcName(fn))
		nWant, other := 0, ""
		for _, cl := range Calls(fn) {
			recv, mm := lastDot(cl.Name)
			if !strings.HasPrefix(recv, "github.com/go-git/go-git/v5") {
				continue
			}
			if _, isMut := gogitMutators[mm]; !isMut || mm == "ResolveRevision" {
				continue
			}
			c.Sites++
			if mm == m.mut {
				nWant++
			} else {
				other = mm + " at " + w.InstrPos(cl.Instr)
			}
		}
		c.Check(nWant == 1 && other == "", "R6.8", "GoGitRepo."+m.name+":single-reference-mutation", w.FnPos(fn), "one "+m.mut, fmt.Sprintf("%s performs %d %s and %s: the ref change is not a single step of the storage, an interruption in between leaves the entity without any ref (neither its old nor its new state)", m.name, nWant, m.mut, map[bool]string{true: "no other mutation", false: other}[other == ""]))
	}
}

// checkLockContentParsable (R6.7): shared with C19 — a stale lock that cannot be parsed is never recovered.
func checkLockContentParsable(c *Ctx) {
	w := c.W
	c.Doc("R6.7", "the lock file holds exactly what its reader parses: RepoCache.lock writes the decimal pid and nothing else when repoIsAvailable hands the bytes to strconv.Atoi untrimmed (a trailing newline would make every stale lock unparseable and the repository unusable after a crash)")
	// R6.7
	lk := w.Method("cache", "RepoCache", "lock")
	ria := w.Func("cache", "repoIsAvailable")
	if lk == nil || ria == nil {
		c.Undecided("R6.7", "anchor:RepoCache.lock/repoIsAvailable", "cache", "not found")
	} else {
		c.seeFn(funcName(lk))
		trims := false
		for _, cl := range Calls(ria) {
			if cl.Name == "strings.TrimSpace" || cl.Name == "bytes.TrimSpace" || cl.Name == "strings.Fields" || cl.Name == "fmt.Sscanf" || cl.Name == "fmt.Sscan" {
				trims = true
			}
		}
		okW, shape := false, "?"
		for _, cl := range Calls(lk) {
			if !strings.HasSuffix(cl.Name, ".Write") && !strings.HasSuffix(cl.Name, ".WriteString") {
				continue
			}
			c.Sites++
			args := cl.Args()
			if len(args) == 0 {
				continue
			}
			ts := templatesOf(stripConv(args[len(args)-1]))
			if len(ts) == 0 {
				ts = templatesOf(args[len(args)-1])
			}
			for _, t := range ts {
				shape = t.String()
				okW = t.Shape() == "‹›" && len(t.Holes()) == 1
			}
		}
		c.Check(okW || trims, "R6.7", "RepoCache.lock:content-is-what-the-reader-parses", w.FnPos(lk), "the lock holds the pid only", "the lock file is written as "+shape+" but repoIsAvailable parses its bytes with strconv.Atoi without trimming: after a crash of the holder the stale lock cannot be parsed, every later open fails until the file is removed by hand")
	}
}


// R6.9: a search index that cannot be opened is recreated. A crash between the creation of the index
// directory and the first write of the index leaves a directory bleve refuses ("metadata missing"); the
// cache is then rebuilt from git anyway (document count mismatch), so nothing is lost by starting over.
func checkIndexReopen(c *Ctx) {
	w := c.W
	// the reference mutations are unconditional: every normal exit of UpdateRef / CopyRef / RemoveRef is the outcome of the storer call
	// (refs may live in packed-refs only: a look at the loose file says nothing)
	for _, m := range []struct{ name, mut string }{{"UpdateRef", "SetReference"}, {"CopyRef", "SetReference"}, {"RemoveRef", "RemoveReference"}} {
		rf := w.Method("repository", "GoGitRepo", m.name)
		if rf == nil {
			continue
		}
		var mut *ssa.Call
		for _, cl := range Calls(rf) {
			if strings.HasSuffix(cl.Name, "."+m.mut) {
				mut, _ = cl.Instr.(*ssa.Call)
			}
		}
		if mut == nil {
			continue
		}
		bad := ""
		for _, r := range Returns(rf) {
			if returnKind(r) == RetError {
				continue
			}
			c.Sites++
			okR := dominatedBySuccess(mut, r)
			if len(r.Results) == 1 {
				for _, o := range origins(ReturnResult(r, 0)) {
					if o.Val == ssa.Value(mut) {
						okR = true
					}
				}
			}
			if !okR {
				bad = "the return at " + w.InstrPos(r) + " reports success without the reference having been handed to the storer"
			}
		}
		c.Check(bad == "", "R6.8", "GoGitRepo."+m.name+":always-through-the-storer", w.FnPos(rf), "success only as the outcome of "+m.mut, bad+": a reference that exists only in packed-refs (after git gc / pack-refs) is reported removed and stays — the entity survives its removal")
	}
	c.Doc("R6.9", "repository.openBleveIndex fails only when creating a fresh index fails: every error return is dominated by the makeIndex call (any failure of bleve.Open leads to re-creation)")
	fn := w.Func("repository", "openBleveIndex")
	if fn == nil {
		c.Undecided("R6.9", "anchor:openBleveIndex", "repository", "not found")
		return
	}
	c.seeFn(funcName(fn))
	var mk ssa.Instruction
	for _, cl := range Calls(fn) {
		if cl.Name == "repository.bleveIndex.makeIndex" {
			mk = cl.Instr
		}
	}
	if mk == nil {
		c.Check(false, "R6.9", "openBleveIndex:any-open-failure-recreates", w.FnPos(fn), "", "openBleveIndex never creates a fresh index")
		return
	}
	bad := ""
	for _, r := range Returns(fn) {
		if returnKind(r) != RetError {
			continue
		}
		c.Sites++
		if !instrDominates(mk, r) {
			bad = "the error return at " + w.InstrPos(r) + " is reachable without having tried to create a fresh index"
		}
	}
	c.Check(bad == "", "R6.9", "openBleveIndex:any-open-failure-recreates", w.FnPos(fn), "every failure of bleve.Open leads to makeIndex", bad+": after a crash that left a half-created index directory the repository cannot be opened any more")
}
