#!/usr/bin/env python3
"""Refreshes the '**As built (generated):**' line at the end of each per-property section of DESIGN.md
from the evidence files of the last run (rule ids, obligation counts, battery size)."""
import json, re, os
HERE = os.path.dirname(os.path.dirname(os.path.abspath(__file__)))
p = os.path.join(HERE, 'DESIGN.md')
s = open(p).read()
s = re.sub(r'\n\*\*As built \(generated\):\*\*[^\n]*\n', '\n', s)
for l in open(os.path.join(HERE, 'properties.jsonl')):
    pid = json.loads(l)['id']
    cov = json.load(open(os.path.join(HERE, 'evidence', pid + '.json')))['coverage']
    rules = sorted(cov['obligations_per_rule'], key=lambda r: [int(x) if x.isdigit() else x for x in re.split(r'(\d+)', r)])
    line = "**As built (generated):** %d obligations on the current tree under rules %s — texts in `RULES.md`; seeded changes reported: see `RULES.md` §%s; %d variants in the thorough battery.\n" % (
        cov['obligations'], ", ".join("%s (%d)" % (r, cov['obligations_per_rule'][r]) for r in rules), pid, (cov.get('sensitivity') or {}).get('variants', 0))
    m = re.search(r'\n### %s — [^\n]*\n' % pid, s)
    if not m:
        continue
    n = re.search(r'\n(### C\d\d — |-{20,}\n\n## 4\.)', s[m.end():])
    pos = m.end() + n.start()
    s = s[:pos].rstrip('\n') + "\n\n" + line + s[pos:]
open(p, 'w').write(s)
print("DESIGN.md as-built lines refreshed")
