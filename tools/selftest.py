#!/usr/bin/env python3
"""Checker self-validation: source mutants applied through go/packages' Overlay (nothing is
written to /repo), one gbcheck subprocess per mutant. A mutant is KILLED when the named rule
reports it, MISSED otherwise; SKIP when its anchor text is not (uniquely) present any more.
usage: selftest.py [-j N] [-k substring] [mutants.json ...]"""
import json, os, subprocess, sys, tempfile, shutil, concurrent.futures as cf, re, glob
HERE = os.path.dirname(os.path.dirname(os.path.abspath(__file__)))
GB = os.path.join(HERE, "bin", "gbcheck")
REPO = "/repo"

def run(m):
    overlay = {}
    files = m.get("files") or [{"file": m["file"], "edits": m.get("edits") or [{"old": m["old"], "new": m["new"]}]}]
    for fe in files:
        path = os.path.join(REPO, fe["file"])
        try:
            src = open(path).read()
        except OSError:
            return m, "SKIP", "file missing"
        for e in fe["edits"]:
            if src.count(e["old"]) != 1:
                return m, "SKIP", "anchor text occurs %d times in %s" % (src.count(e["old"]), fe["file"])
            src = src.replace(e["old"], e["new"])
        overlay[path] = src
    d = tempfile.mkdtemp(prefix="gbself_")
    try:
        ov = os.path.join(d, "overlay.json")
        json.dump(overlay, open(ov, "w"))
        shutil.copy(os.path.join(HERE, "known_findings.txt"), d)
        p = subprocess.run([GB, "-property", m["property"], "-overlay", ov, "-verif", d],
                           capture_output=True, text=True, timeout=600)
        out = p.stdout + p.stderr
        if "does not load/type-check" in out:
            return m, "NOCOMPILE", out.strip().splitlines()[0][:300]
        hits = re.findall(r"^\s+(?:VIOLATED|UNDECIDED) (\S+) \[(.*?)\] at", out, re.M)
        exp = m.get("expect", "")
        benign = m.get("benign", False)
        if benign:
            return m, ("SILENT" if not hits else "FALSE-ALARM"), "; ".join("%s[%s]" % h for h in hits)[:300]
        ok = [h for h in hits if h[0].startswith(exp) or exp in h[1]]
        if ok:
            return m, "KILLED", "%s[%s]" % ok[0]
        if hits:
            return m, "KILLED-OTHER", "; ".join("%s[%s]" % h for h in hits)[:300]
        return m, "MISSED", out.strip().splitlines()[-1][:200] if out.strip() else ""
    finally:
        shutil.rmtree(d, ignore_errors=True)

def main():
    args = sys.argv[1:]
    j, k = 6, None
    files = []
    while args:
        a = args.pop(0)
        if a == "-j": j = int(args.pop(0))
        elif a == "-k": k = args.pop(0)
        else: files.append(a)
    if not files:
        files = sorted(glob.glob(os.path.join(HERE, "selftest", "*.json")))
    ms = []
    for f in files:
        ms += json.load(open(f))
    if k:
        ms = [m for m in ms if k in m["id"] or k == m["property"]]
    counts = {}
    with cf.ThreadPoolExecutor(j) as ex:
        for m, status, info in ex.map(run, ms):
            counts[status] = counts.get(status, 0) + 1
            print("%-12s %-4s %-40s %s" % (status, m["property"], m["id"], info), flush=True)
    print("summary:", counts)
    bad = counts.get("MISSED", 0) + counts.get("FALSE-ALARM", 0)
    sys.exit(1 if bad else 0)
main()
