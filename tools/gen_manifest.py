#!/usr/bin/env python3
"""Generates /verif/MANIFEST.json from the table below (kept next to the checker so that
the claimed rules and the manifest text cannot drift apart silently)."""
import json, os, sys
HERE = os.path.dirname(os.path.dirname(os.path.abspath(__file__)))

LEVEL_NOTE = ("Trusted base: go/types + go/ssa + go/packages (x/tools v0.29.0) on /repo's current working tree, default build "
              "tags, tests excluded; the hybrid VTA/CHA call graph is assumed sound for this program; dependencies (go-git, bleve, "
              "gqlgen, openpgp) behave as documented. Structural necessary conditions are decided, run-time values are not "
              "(see the ND paragraph of the property's DESIGN.md section).")

# id -> (technique, level text, design ref)
CLAIMED = {}
NOT_APPLICABLE = {}

def claim(pid, technique, text, ref):
    CLAIMED[pid] = (technique, text, ref)

def na(pid, reason):
    NOT_APPLICABLE[pid] = reason

exec(open(os.path.join(HERE, "tools", "manifest_table.py")).read())

props = [json.loads(l)["id"] for l in open(os.path.join(HERE, "properties.jsonl"))]
checks = []
for pid in props:
    if pid in CLAIMED:
        tech, text, ref = CLAIMED[pid]
        checks.append({
            "property_id": pid,
            "quick_cmd": "./bin/gbcheck -property %s -tier quick" % pid,
            "thorough_cmd": "./bin/gbcheck -property %s -tier thorough" % pid,
            "evidence_file": "evidence/%s.json" % pid,
            "replay_cmd_template": "./bin/gbcheck -explain {path}",
            "engine": "gbcheck",
            "level_claimed": {"category": "other", "text": text, "design_ref": ref},
            "level_note": LEVEL_NOTE,
            "technique": tech,
        })
missing = [p for p in props if p not in CLAIMED and p not in NOT_APPLICABLE]
if missing:
    sys.exit("properties neither claimed nor not_applicable: %s" % missing)
m = {
    "version": 1,
    "setup_cmd": "cd checker && env -u GOWORK GOFLAGS=-mod=mod GOPROXY=off GOSUMDB=off GOTOOLCHAIN=local go build -o ../bin/gbcheck .",
    "hooks": {
        "guard": "verif",
        "enable": "none needed: the checks analyse /repo's source (go/packages + go/ssa), nothing is instrumented and no hook commit exists",
        "baseline_off_cmd": "cd /repo && GOFLAGS=-mod=mod go test -vet=off -count=1 -timeout 25m ./...",
        "source_commits": [],
        "add_only": True,
    },
    "engines": [{
        "name": "gbcheck",
        "path": "checker",
        "serves_properties": sorted(CLAIMED),
        "kind_free_text": "repository-specific static analyser (Go, go/packages + go/types + go/ssa + hybrid VTA/CHA call graph): per-property rule tables over dominators, success edges, effect summaries, value provenance, string templates, lock sets and table agreement",
    }],
    "checks": checks,
    "not_applicable": [{"property_id": p, "reason": r} for p, r in sorted(NOT_APPLICABLE.items()) if p not in CLAIMED],
    "notes": "All checks are static: every run re-loads and re-analyses /repo's current working tree; nothing in a registered check executes git-bug code or its tests. Known findings: known_findings.txt. Design: DESIGN.md.",
}
json.dump(m, open(os.path.join(HERE, "MANIFEST.json"), "w"), indent=1)
print("MANIFEST.json: %d checks, %d not_applicable" % (len(checks), len(m["not_applicable"])))
