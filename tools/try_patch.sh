#!/bin/bash
# usage: try_patch.sh [-R] <patch.diff> [property ids, comma separated | all]
# Applies the patch to /repo's working tree, runs gbcheck, and ALWAYS restores the tree.
REV=""
if [ "$1" = "-R" ]; then REV="-R"; shift; fi
PATCH="$1"; PROPS="${2:-all}"
cd /repo || exit 2
if [ -n "$(git status --porcelain)" ]; then echo "/repo is dirty, refusing"; exit 2; fi
if ! git apply $REV "$PATCH"; then echo "patch does not apply"; exit 2; fi
trap 'git -C /repo checkout -- . ; git -C /repo clean -fdq' EXIT
cp /verif/known_findings.txt /tmp/gbcheck_scratch/; cd /verif && ./bin/gbcheck -property "$PROPS" -verif /tmp/gbcheck_scratch 2>&1 | grep -E "VIOLATION|VIOLATED|UNDECIDED|KNOWN-FINDING|obligations" 
