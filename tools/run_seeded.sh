#!/bin/bash
# Applies every confirmed seeded change (/verif/seeded/<id>-m<k>/patch.diff) to /repo in turn, runs the check of
# the property it breaks, restores /repo, and prints which rule caught it. /repo must be clean.
cd /repo || exit 2
[ -z "$(git status --porcelain)" ] || { echo "/repo is dirty"; exit 2; }
mkdir -p /tmp/gbcheck_scratch; cp /verif/known_findings.txt /tmp/gbcheck_scratch/
for d in /verif/seeded/*/; do
  n=$(basename $d); prop=${n%%-*}
  if ! git apply --check $d/patch.diff 2>/dev/null; then echo "$n: patch no longer applies"; continue; fi
  git apply $d/patch.diff
  out=$(cd /verif && ./bin/gbcheck -property $prop -verif /tmp/gbcheck_scratch 2>&1)
  git checkout -q -- . ; git clean -fdq
  hit=$(echo "$out" | grep -E "^\s+(VIOLATED|UNDECIDED)" | sed -E 's/^\s+(VIOLATED|UNDECIDED) (\S+) \[([^]]*)\].*/\2[\3]/' | sort -u | paste -sd' ')
  if [ -n "$hit" ]; then echo "$n: CAUGHT by $hit"; else echo "$n: MISSED"; fi
done
