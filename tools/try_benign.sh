#!/bin/bash
# usage: try_benign.sh <property>   — applies every /tmp/seed_out/benign/<property>/b<k>/patch.diff to /repo in turn,
# runs ALL checks (a harmless edit must not alarm any property), restores /repo. Prints one line per variant.
ID="$1"
cd /repo || exit 2
[ -z "$(git status --porcelain)" ] || { echo "/repo is dirty"; exit 2; }
mkdir -p /tmp/gbcheck_scratch; cp /verif/known_findings.txt /tmp/gbcheck_scratch/
for d in ${BENIGN_DIR:-/tmp/seed_out/benign}/$ID/b*/; do
  k=$(basename $d)
  [ -f $d/patch.diff ] || continue
  if ! git apply --check $d/patch.diff 2>/dev/null; then echo "$ID $k: patch does not apply"; continue; fi
  git apply $d/patch.diff
  out=$(cd /verif && ./bin/gbcheck -property all -verif /tmp/gbcheck_scratch 2>&1)
  git checkout -q -- . ; git clean -fdq
  hit=$(echo "$out" | grep -E "^\s+(VIOLATED|UNDECIDED)" | sed -E 's/^\s+(VIOLATED|UNDECIDED) (\S+) \[([^]]*)\].*/\2[\3]/' | sort -u | paste -sd' ')
  if [ -n "$hit" ]; then echo "$ID $k: ALARM $hit"; else echo "$ID $k: silent"; fi
done
