#!/usr/bin/env python3
"""Runs ALL checks on every behaviour-preserving variant of /verif/benign/*/patch.diff, each analysed as an
overlay of /repo's current files (nothing is written to /repo), several at a time. Any report is a false alarm.
usage: check_benign.py [-j N] [substring]"""
import json, os, subprocess, sys, tempfile, shutil, re, glob, concurrent.futures as cf
HERE = os.path.dirname(os.path.dirname(os.path.abspath(__file__)))
GB = os.path.join(HERE, "bin", "gbcheck")
REPO = "/repo"

def run(d):
    name = os.path.basename(d.rstrip("/"))
    patch = os.path.join(d, "patch.diff")
    tmp = tempfile.mkdtemp(prefix="gbbenign_")
    try:
        paths = [l[6:].strip() for l in open(patch) if l.startswith("+++ b/")]
        work = os.path.join(tmp, "src")
        for p in paths:
            os.makedirs(os.path.dirname(os.path.join(work, p)), exist_ok=True)
            if os.path.exists(os.path.join(REPO, p)):
                shutil.copy(os.path.join(REPO, p), os.path.join(work, p))
        r = subprocess.run(["git", "apply", "--whitespace=nowarn", patch], cwd=work, capture_output=True, text=True,
                           env=dict(os.environ, GIT_CEILING_DIRECTORIES=tmp))
        if r.returncode != 0:
            return name, "SKIP", "patch does not apply: " + (r.stderr.strip().splitlines() or [""])[0][:120]
        ov = {}
        for p in paths:
            fp = os.path.join(work, p)
            if os.path.exists(fp) and p.endswith(".go"):
                ov[os.path.join(REPO, p)] = open(fp).read()
        ovp = os.path.join(tmp, "ov.json")
        json.dump(ov, open(ovp, "w"))
        shutil.copy(os.path.join(HERE, "known_findings.txt"), tmp)
        p = subprocess.run([GB, "-property", "all", "-overlay", ovp, "-verif", tmp], capture_output=True, text=True, timeout=900)
        out = p.stdout + p.stderr
        if "does not load/type-check" in out:
            return name, "NOCOMPILE", out.strip().splitlines()[0][:200]
        hits = sorted(set(re.findall(r"^\s+(?:VIOLATED|UNDECIDED) (\S+) \[(.*?)\] at", out, re.M)))
        if hits:
            return name, "FALSE-ALARM", " ".join("%s[%s]" % h for h in hits)[:400]
        return name, "silent", ""
    finally:
        shutil.rmtree(tmp, ignore_errors=True)

def main():
    args = sys.argv[1:]
    j, k = 6, None
    while args:
        a = args.pop(0)
        if a == "-j": j = int(args.pop(0))
        else: k = a
    dirs = sorted(glob.glob(os.path.join(HERE, "benign", "*/")))
    if k: dirs = [d for d in dirs if k in d]
    counts = {}
    with cf.ThreadPoolExecutor(j) as ex:
        for name, status, info in ex.map(run, dirs):
            counts[status] = counts.get(status, 0) + 1
            if status != "silent":
                print("%-12s %-10s %s" % (status, name, info), flush=True)
    print("summary:", counts)
    sys.exit(1 if counts.get("FALSE-ALARM") else 0)
main()
