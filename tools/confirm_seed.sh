#!/bin/bash
# usage: confirm_seed.sh <property> <k>   — independently confirms /tmp/seed_out/<property>/m<k> in a scratch
# worktree of /repo HEAD and, if confirmed, stores it as /verif/seeded/<property>-m<k>/ (patch.diff, demo, meta.json).
ID="$1"; K="$2"
SRC=/tmp/seed_out/$ID/m$K
[ -f "$SRC/patch.diff" ] || { echo "no patch in $SRC"; exit 2; }
export GOFLAGS=-mod=mod GOPROXY=off GOSUMDB=off GOTOOLCHAIN=local; unset GOWORK
WT=/tmp/confirm_${ID}_m$K
git -C /repo worktree remove --force $WT 2>/dev/null; rm -rf $WT
git -C /repo worktree add -q --detach $WT HEAD || exit 2
trap 'git -C /repo worktree remove --force '$WT' 2>/dev/null; rm -rf '$WT EXIT
DEMO_DIR=$(python3 -c "import json;print(json.load(open('$SRC/meta.json')).get('demo_dir','').strip('/'))")
DEMO_DIR=${DEMO_DIR#/tmp/wt_$ID/}
DEMO_FILE=$(ls $SRC/*_test.go 2>/dev/null | head -1)
[ -n "$DEMO_FILE" ] || { echo "no demo test"; exit 2; }
cp "$DEMO_FILE" $WT/$DEMO_DIR/zz_seed_demo_test.go
RUNPAT=$(grep -ho "^func Test[A-Za-z0-9_]*" "$DEMO_FILE" | sed 's/^func //' | paste -sd'|')
cd $WT
echo "== demo on clean code ($DEMO_DIR, -run '$RUNPAT')"
CLEAN=$(timeout 300 go test -vet=off -count=1 -run "^($RUNPAT)\$" ./$DEMO_DIR/ 2>&1 | tail -3); echo "$CLEAN"
echo "$CLEAN" | grep -q "^ok" || { echo "RESULT: demo does not pass on clean code"; exit 1; }
git apply $SRC/patch.diff || { echo "RESULT: patch does not apply"; exit 1; }
go build ./... || { echo "RESULT: does not build"; exit 1; }
echo "== suite with mutant"
mv $WT/$DEMO_DIR/zz_seed_demo_test.go /tmp/zz_seed_demo_${ID}_$K.go
SUITE=$(timeout 1500 go test -vet=off -count=1 ./... 2>&1 | grep -E "^(FAIL\s|--- FAIL|panic:)" | grep -v "TestValidateUsername\|TestValidateProject\|git-bug/bridge/github\s\|git-bug/bridge/launchpad\s" ); echo "$SUITE" | head -10
mv /tmp/zz_seed_demo_${ID}_$K.go $WT/$DEMO_DIR/zz_seed_demo_test.go
if [ -n "$SUITE" ]; then echo "RESULT: suite fails with the mutant"; exit 1; fi
echo "== demo with mutant"
MUT=$(timeout 600 go test -vet=off -count=1 -run "^($RUNPAT)\$" ./$DEMO_DIR/ 2>&1 | tail -4); echo "$MUT"
if echo "$MUT" | grep -q "^ok"; then echo "RESULT: demo still passes with the mutant"; exit 1; fi
DEST=/verif/seeded/$ID-m$K
mkdir -p $DEST && cp $SRC/patch.diff $DEST/patch.diff && cp "$DEMO_FILE" $DEST/demo_test.go.txt
python3 - "$SRC/meta.json" "$DEST/meta.json" "$DEMO_DIR" "$RUNPAT" <<'PY'
import json,sys
m=json.load(open(sys.argv[1]))
out={"property":m.get("property"),"breaks":m.get("summary"),"needs_to_manifest":m.get("needs"),
 "demo":"demo_test.go.txt (place as <repo>/%s/zz_seed_demo_test.go)"%sys.argv[3],
 "confirmed_by_me":["scratch worktree of /repo HEAD: demo passes on clean code (go test -run '%s' ./%s/)"%(sys.argv[4],sys.argv[3]),
   "patch applied: go build ./... ok; go test -vet=off -count=1 ./... passes apart from the always-failing network tests",
   "patch applied: demo fails"],
 "author_ran":m.get("ran")}
json.dump(out,open(sys.argv[2],"w"),indent=1)
PY
echo "RESULT: CONFIRMED -> $DEST"
